"""Kani units: tiny crates that include one real source file of /repo verbatim (#[path] / include!) plus harnesses.

A loop-free harness over fully symbolic inputs is a complete proof for the stated type instance; harnesses that
need an unwinding bound are reported under `bounded` and never counted as discharged obligations.
"""
import os, re, json, shutil, subprocess, time, fcntl

ROOT = os.path.dirname(os.path.dirname(os.path.abspath(__file__)))
WORK_BASE = os.environ.get("VERIF_WORK", "/var/tmp/des-verif-work")

UNITS = {
    "body": {
        "file": "des/src/net/message/body.rs",
        "props": ["C16"],
        "functions": ["Body::new", "Body::new_with_len", "Body::new_non_clonable", "Body::is", "Body::try_cast", "Body::try_content",
                      "Body::try_content_mut", "Body::try_clone", "Body::clone", "Body::drop", "Body::length", "vtable<T>", "vclone<T>", "vdrop<T>"],
        "harnesses": {
            "readback_u32": "u32 payload: is/length/try_content/try_content_mut/try_cast return exactly the value put in",
            "readback_u8_u64_unit_array": "u8, u64, (), [u8;4] payloads read back as their own type with the declared length",
            "mismatch_leaves_body_intact": "try_cast/try_content(_mut) with any other type (incl. layout-compatible i32/[u8;4]/newtype) fail and leave the body intact",
            "same_named_types_are_distinct": "two distinct types with the same printed type name are not confused (identity is the TypeId)",
            "zero_sized_payload_dropped_once": "a zero-sized payload with a destructor is dropped exactly once (with and without clone / failed cast)",
            "non_debugable_clones_and_casts": "new_non_debugable: try_clone is Some and equal, clone does not panic, the value casts back, length = memory size",
            "container_lengths_are_sums": "byte_len of [T;N] / &[T] / Vec / tuples / Option / Result / Box is the sum over the parts (elements of different lengths, N <= 3)",
            "clone_is_equal_and_independent": "clone/try_clone yield an equal, independent value and keep the declared length",
            "non_clonable_yields_none": "new_non_clonable: try_clone is None, the value still casts back",
            "drop_exactly_once_all_scripts": "all 16 paths of clone? try_clone? failed-cast? ok-cast?|drop: every stored value dropped exactly once",
            "drop_count_total": "0..2 clones, optional cast: total number of drops equals number of stored values",
        },
        "trusted": ["shim `mod time { Duration, SimTime }` (body.rs only implements MessageBody for them)",
                    "CBMC memory model: double free / use after free / invalid pointer checks (default on)",
                    "instances {u8,u32,u64,(),[u8;4],Tok(Drop),Other,NoClone}: 'every T' is quantified by instances"],
    },
    "allocarith": {
        "file": "des-cqueue/src/stable/alloc.rs",
        "props": ["C15"],
        "functions": ["align_up", "CQueueLLAllocatorInner::alloc_from_region", "CQueueLLAllocatorInner::size_align", "ListNode::start_addr", "ListNode::end_addr"],
        "harnesses": {
            "align_up_contract": "align_up(addr, 2^k): smallest multiple of the alignment >= addr, for every addr and k < 63 (no overflow)",
            "alloc_from_region_contract": "Ok(s) => block inside the region, aligned, rest empty or >= size_of ListNode; Err only when it does not fit or leaves an unusable rest",
            "size_align_contract": "size_align: align >= 8 and >= requested, size >= 16 and >= requested, size multiple of align (size >= 1)",
        },
        "trusted": ["page_size crate linked but not reached by the harnesses", "pointer-to-integer casts as modelled by CBMC",
                    "zero-sized layouts excluded from size_align (16 % 32 != 0 for align >= 32; never requested)"],
    },
    "timers": {
        "file": "des/src/time/interval.rs",
        "props": ["C05"],
        "functions": ["MissedTickBehavior::next_timeout (Burst, Delay)", "impl Add<Duration> for SimTime", "impl Sub<Duration> for SimTime", "impl Sub<SimTime> for SimTime"],
        "harnesses": {
            "simtime_plus_duration_follows_nanoseconds": "SimTime + Duration computes on the nanosecond counts (contract assumed by unit interval), all values up to 500 years",
            "simtime_minus_duration_follows_nanoseconds": "SimTime - Duration computes on the nanosecond counts (contract assumed by unit interval)",
            "simtime_minus_simtime_follows_nanoseconds": "SimTime - SimTime yields the Duration between them (contract assumed by unit interval)",
            "next_timeout_burst_and_delay": "after a missed tick Burst schedules the next tick one period after the tick that was due, Delay one period after now, for every (due, now >= due, period) up to 500 years",
        },
        "trusted": ["interval.rs is included textually (include!) so that the private next_timeout is callable; des/src/time/mod.rs verbatim as its parent module",
                    "Skip (now + period - (now - due) % period): 128-bit remainders exceed CBMC's budget here (no verdict in 25 min with cadical, 40 min with kissat); it is proved in the Verus unit `interval` instead, on top of the operator contracts this unit establishes",
                    "serde / pin-project-lite linked, not reached"],
    },
    "simtime": {
        "file": "des/src/time/mod.rs",
        "props": ["C02"],
        "functions": ["SimTime::set_now", "SimTime::now", "SimTime::from_duration", "SimTime::deref", "derived PartialEq/PartialOrd for SimTime"],
        "harnesses": {
            "set_now_then_now_roundtrip": "now() returns exactly what the last set_now stored, for every (secs, nanos)",
            "from_duration_deref_roundtrip": "from_duration/deref are inverse; derived ==/< on SimTime agree with Duration",
        },
        "trusted": ["atomics are sequentially consistent and single threaded in Kani", "serde / pin-project-lite linked, not reached"],
    },
}


def sh(cmd, cwd, timeout):
    t0 = time.time()
    env = dict(os.environ, CARGO_NET_OFFLINE="true")
    try:
        p = subprocess.run(cmd, cwd=cwd, env=env, stdout=subprocess.PIPE, stderr=subprocess.STDOUT, timeout=timeout)
        return p.returncode, p.stdout.decode("utf8", "replace"), time.time() - t0
    except subprocess.TimeoutExpired as e:
        return 124, (e.stdout or b"").decode("utf8", "replace") + "\nTIMEOUT", time.time() - t0


def prepare(unit, repo):
    src = os.path.join(ROOT, "kani", unit)
    dst = os.path.join(WORK_BASE, "kani-" + unit)
    os.makedirs(os.path.join(dst, "src"), exist_ok=True)
    for f in ("Cargo.toml", "Cargo.lock"):
        if os.path.exists(os.path.join(src, f)):
            shutil.copy(os.path.join(src, f), os.path.join(dst, f))
    text = open(os.path.join(src, "src/lib.rs"), encoding="utf8").read().replace("@REPO@", repo)
    cur = None
    lp = os.path.join(dst, "src/lib.rs")
    if os.path.exists(lp):
        cur = open(lp, encoding="utf8").read()
    if cur != text:
        open(lp, "w", encoding="utf8").write(text)
    return dst


def parse(out):
    res = {}
    cur = None
    for line in out.splitlines():
        m = re.match(r"Checking harness (\S+?)\.\.\.", line)
        if m:
            cur = m.group(1).split("::")[-1]
            res[cur] = {"status": None, "checks": None, "failed": [], "time": None}
            continue
        if cur:
            m = re.match(r" \*\* (\d+) of (\d+) failed", line)
            if m:
                res[cur]["checks"] = int(m.group(2))
                res[cur]["failed_n"] = int(m.group(1))
            m = re.match(r"Failed Checks: (.*)", line)
            if m:
                res[cur]["failed"].append(m.group(1).strip())
            m = re.match(r"VERIFICATION:- (\w+)", line)
            if m:
                res[cur]["status"] = m.group(1)
            m = re.match(r"Verification Time: ([\d.]+)s", line)
            if m:
                res[cur]["time"] = float(m.group(1))
    return res


def run_unit(unit, tier, repo, work):
    cfg = UNITS[unit]
    os.makedirs(WORK_BASE, exist_ok=True)
    lock = open(os.path.join(WORK_BASE, "kani-%s.lock" % unit), "w")
    fcntl.flock(lock, fcntl.LOCK_EX)
    t0 = time.time()
    r = {"unit": unit, "violations": [], "undecided": [], "harnesses": [], "cmds": [], "trusted": cfg["trusted"], "samples": [],
         "functions": [], "bounded": [], "obligations": 0, "discharged": 0}
    try:
        if not os.path.exists(os.path.join(repo, cfg["file"])):
            r["undecided"].append("LOST-ANCHOR kani unit %s: %s does not exist" % (unit, cfg["file"]))
            return r
        d = prepare(unit, repo)
        per_harness = 900 if tier == "thorough" else 150
        r["cmds"].append("(cd kani/%s with @REPO@=%s && CARGO_NET_OFFLINE=true cargo kani --output-format regular --harness <each harness>, time limit %ds each)" % (unit, repo, per_harness))
        for h, desc in cfg["harnesses"].items():
            # one harness at a time: a harness that becomes expensive on an edited tree must not hide a quick refutation by another
            rc, out, wall = sh(["cargo", "kani", "--output-format", "regular", "--harness", h], d, per_harness)
            if rc == 124:
                r["undecided"].append("kani unit %s: harness %s gave no verdict within %ds" % (unit, h, per_harness))
                continue
            res = parse(out)
            hr = res.get(h)
            if hr is None:
                errs = [l for l in out.splitlines() if l.startswith("error")]
                r["undecided"].append("kani unit %s: harness %s did not run (the included file no longer compiles with the harnesses, or tool failure): %s" % (unit, h, (errs or [out[-200:]])[0]))
                if errs:
                    break
                continue
            r["obligations"] += 1
            ok = hr["status"] == "SUCCESSFUL"
            r["harnesses"].append({"harness": h, "what": desc, "status": hr["status"], "cbmc_checks": hr["checks"], "verification_s": hr["time"], "wall_s": round(wall, 1)})
            if ok:
                r["discharged"] += 1
                r["samples"].append({"unit": unit, "obligation": h, "clause": desc})
            else:
                rep = counterexample(unit, d, h, hr, cfg, repo)
                r["violations"].append(rep)
        for fn in cfg["functions"]:
            r["functions"].append({"fn": fn, "file": cfg["file"], "status": "verified (Kani harnesses of unit %s)" % unit, "props": cfg["props"]})
        r["wall"] = round(time.time() - t0, 2)
        return r
    finally:
        fcntl.flock(lock, fcntl.LOCK_UN)
        lock.close()


def counterexample(unit, d, h, hr, cfg, repo):
    """Concrete playback: Kani writes the failing values as a #[test] into the work copy, the test is then executed natively
    on the included real file (cargo kani playback) — the counterexample replayed against the real code."""
    os.makedirs(os.path.join(ROOT, "replays"), exist_ok=True)
    path = os.path.join(ROOT, "replays", "%s-%s-%s-%s.json" % (cfg["props"][0], unit, h, time.strftime("%Y%m%d-%H%M%S")))
    lib = os.path.join(d, "src/lib.rs")
    orig = open(lib, encoding="utf8").read()
    test, vals, observed = None, [], None
    try:
        rc, out, _ = sh(["cargo", "kani", "--harness", h, "-Z", "concrete-playback", "--concrete-playback=inplace"], d, 900)
        patched = open(lib, encoding="utf8").read()
        m = re.search(r"(#\[test\]\s*fn kani_concrete_playback_\w+\(\) \{.*?\n\s*\}\n)", patched, re.S)
        if m:
            test = m.group(1)
            vals = re.findall(r"//\s*(.+)\n\s*vec!\[([^\]]*)\]", test)
            rc2, out2, _ = sh(["cargo", "kani", "playback", "-Z", "concrete-playback"], d, 900)
            tail = [l for l in out2.splitlines() if "panicked at" in l or l.startswith("assertion") or "test result" in l or "Failed" in l]
            observed = "\n".join(tail[-6:]) or out2[-600:]
    finally:
        open(lib, "w", encoding="utf8").write(orig)
    obj = {"property": cfg["props"][0], "unit": unit, "function": cfg["file"], "obligation_kind": "kani-harness", "obligation": h,
           "clause_text": cfg["harnesses"][h], "failed_checks": hr["failed"], "verifier": "kani 0.68 / cbmc 6.11",
           "counterexample": {"concrete_values": [{"value": a.strip(), "bytes": b.strip()} for a, b in vals], "playback_test": test},
           "observed_on_real_code": observed, "replay_cmd": "./check --replay %s" % path}
    json.dump(obj, open(path, "w"), indent=1)
    return {"fn": cfg["file"], "kind": "kani-harness", "label": h, "clause": cfg["harnesses"][h], "message": "; ".join(hr["failed"]),
            "replay": path if (test and observed and "FAILED" in observed) else path + " no-failing-input-found", "tags": cfg["props"], "fn_props": cfg["props"], "rendered": "; ".join(hr["failed"])}
