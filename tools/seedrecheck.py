#!/usr/bin/env python3
"""Re-run the registered checks against every kept seeded change (apply to /repo, check, undo) and refresh meta.json."""
import os, json, subprocess, sys, time
ROOT = "/verif"
only = sys.argv[1:]
def sh(cmd, cwd=None):
    p = subprocess.run(cmd, cwd=cwd, shell=True, stdout=subprocess.PIPE, stderr=subprocess.STDOUT)
    return p.returncode, p.stdout.decode("utf8", "replace")
rows = []
for sid in sorted(os.listdir(os.path.join(ROOT, "seeded"))):
    if (only and sid not in only) or sid.startswith("neutral-"):
        continue
    d = os.path.join(ROOT, "seeded", sid)
    mp = os.path.join(d, "meta.json")
    if not os.path.exists(mp):
        continue
    meta = json.load(open(mp))
    prop = meta.get("property") or sid.split("-")[0]
    rc, out = sh("git -C /repo status --porcelain")
    assert out.strip() == "", "/repo not clean"
    rc, out = sh("git -C /repo apply %s" % os.path.join(d, "patch.diff"))
    assert rc == 0, out
    try:
        rc, out = sh("VERIF_NO_EVIDENCE=1 ./check %s" % prop, ROOT)
    finally:
        sh("git -C /repo checkout -- .")
    lines = [l for l in out.splitlines() if l.startswith(("VIOLATION", "UNDECIDED", "OK", "KNOWN", "  failed"))]
    meta.setdefault("checks_run", {})[prop] = {"exit": rc, "lines": lines[:8], "at": time.strftime("%Y-%m-%d %H:%M:%S")}
    meta["detected_by"] = sorted(set([p for p, r in meta["checks_run"].items() if r["exit"] == 1]))
    json.dump(meta, open(mp, "w"), indent=1)
    first = next((l for l in lines if l.startswith("  failed")), (lines or [""])[0])
    rows.append((sid, prop, rc, first.strip()[:150]))
    print("%-8s %s exit=%d %s" % (sid, prop, rc, first.strip()[:150]), flush=True)
