"""Which units decide which property (DESIGN.md §5)."""

BUNDLES = ["core"]
KANI_UNITS = []

PROPS = {
    "C01": {
        "bundles": ["core"],
        "fns": {"core": ["CQueue::add", "CQueue::fetch_next", "CQueue::cancel"]},
        "assumptions": [
            "DualLinkedList contract (abstract view Seq<(E,Duration,usize)>; add = stable insert behind all entries with time <= t, pop_min = remove front, cancel = remove first entry with the id, front_time): assumed, raw-pointer code outside Verus",
            "std::time::Duration modelled by dn(d) = total nanoseconds <= u64::MAX*1e9+999_999_999; ==, <, <=, >, >=, +=, as_nanos follow dn; machine arithmetic is NOT idealised: every +, -=, cast and `t0 += t` is proved free of overflow",
            "preconditions of the proved contracts: len < usize::MAX, event_id < usize::MAX (ids never wrap), time + 2*bucket_width <= Duration::MAX, n*t <= u128::MAX, bucket count >= 1, bucket width >= 1ns",
            "CQueue::new postcondition (wf, empty, now = 0) assumed: uses iterator adaptors outside the subset",
        ],
        "not_covered": ["memory safety of the linked list / allocator (C15)"],
    },
}
