"""Which units decide which property (DESIGN.md §5)."""

BUNDLES = ["core", "processor", "chanbuf", "moduletree"]
KANI_UNITS = []

A_DLL = "DualLinkedList contract (abstract view Seq<(E,Duration,usize)>; add = stable insert behind all entries with time <= t, pop_min = remove front, cancel = remove first entry with the id, front_time): assumed — raw-pointer code outside Verus"
A_DUR = "std::time::Duration modelled by dn(d) = total nanoseconds <= u64::MAX*1e9+999_999_999; ==, <, <=, >, >=, +=, as_nanos follow dn; machine arithmetic is NOT idealised: every +, -=, cast and `t0 += t` is proved free of overflow"
A_BOUNDS = "resource preconditions of the proved contracts: len < usize::MAX, event_id < usize::MAX (ids never wrap), itr < usize::MAX, time + 2*bucket_width <= Duration::MAX, n*t <= u128::MAX, bucket count >= 1, bucket width >= 1ns"
A_NEW = "CQueue::new is verified (well-formed, empty, time 0); assumed inside it: the iterator chain that builds the bucket vector yields n empty lists (rewrite R17 -> make_buckets), Duration::ZERO is zero nanoseconds (R17 -> dur_zero)"
A_HANDLER = "event handlers / at_sim_end (user code, reached through R3) keep Runtime::inv, do not move clock or counters and are entered once per call: assumed contract on user code"
A_CLOCK = "the global SIMTIME atomics are mirrored by a ghost field written right after every SimTime::set_now (R4); Runtime::sim_time/SimTime::now return the mirror: assumed here, discharged for set_now/now by Kani unit simtime"
A_BUILD = "Builder::build (mutex, RNG install) is not extracted: its postcondition (inv, clock = start_time, empty event set) is assumed; FutureEventSet::new_with, which it calls, is proved"
A_DERIVE = "#[derive(PartialEq, PartialOrd, ..)] on SimTime/State compare structurally: assumed"

A_KANI = "Kani/CBMC: loop-free harnesses over fully symbolic inputs (complete for the stated type instances); CBMC's memory model and pointer encoding are trusted"

PROPS = {
    "C01": {
        "bundles": ["core"],
        "fns": {"core": ["CQueue::add", "CQueue::fetch_next", "CQueue::cancel", "cqueue_impl::FutureEventSet::add", "cqueue_impl::FutureEventSet::fetch_next"]},
        "assumptions": [A_DLL, A_DUR, A_BOUNDS, A_NEW, "cancel: the handle was returned by add of this queue (a pending entry with the handle's id carries the handle's time)"],
        "not_covered": ["memory safety of the linked list / allocator (C15)", "history-level statements are mechanised as Verus theorems over arbitrary histories of abstract steps (thm_fetch_order, thm_fetched_once, thm_cancelled_never_fetched, thm_fetched_was_added, thm_fetch_deterministic, thm_invariant); 'returned exactly once' is proved as 'at most once, and pending until returned or cancelled' (that a drain returns everything is Runtime::finish's contract, C11)"],
    },
    "C02": {
        "bundles": ["core", "core#total"], "kani": ["simtime"],
        "fns": {"core": ["CQueue::add", "CQueue::fetch_next", "cqueue_impl::FutureEventSet::new_with", "cqueue_impl::FutureEventSet::add", "Runtime::dispatch_event", "Runtime::dispatch_all", "Runtime::add_event"]},
        "assumptions": [A_DLL, A_DUR, A_BOUNDS, A_NEW, A_HANDLER, A_CLOCK, A_BUILD, A_DERIVE],
        "not_covered": ["'scheduling at or after now always succeeds' is proved in the TOTAL variant of unit core (assert!/assert_eq! as obligations): Runtime::add_event / FutureEventSet::add / CQueue::add cannot panic for time >= clock under the resource bounds; overflow panics are excluded by the same obligations; panics inside user handlers are outside",
                        "SimTime::now() as observed from inside user handlers is the real global (Kani unit simtime)"],
    },
    "C03": {
        "bundles": ["core"],
        "fns": {"core": ["CQueue::add", "CQueue::fetch_next"]},
        "assumptions": [A_DLL, A_DUR, A_BOUNDS, A_NEW],
        "not_covered": ["BOUNDED only (replay/net_driver): buf_process flushes the events buffered in one activation in emission order (net/runtime/ctx.rs: global Mutex, outside the subset) — bursts of 22..41 timers with ties", "BinaryHeap back end (only promises time order)"],
    },
    "C10": {
        "bundles": ["core", "core#total"],
        "fns": {"core": ["CQueue::peek_time", "cqueue_impl::FutureEventSet::peek_time", "RuntimeLimit::applies", "Runtime::dispatch_event", "Runtime::dispatch_all", "Runtime::dispatch_n_events", "Runtime::dispatch_events_until", "Runtime::add_event", "Runtime::num_events_remaining"]},
        "assumptions": [A_DLL, A_DUR, A_BOUNDS, A_NEW, A_HANDLER, A_CLOCK, A_BUILD, A_DERIVE],
        "not_covered": ["termination of dispatch_all (handlers may schedule forever): partial correctness", "Runtime::start (macro_rules inside the body) not extracted"],
    },
    "C11": {
        "bundles": ["core"],
        "fns": {"core": ["RuntimeLimit::applies", "RuntimeLimit::add", "Runtime::dispatch_event", "Runtime::dispatch_all", "Runtime::finish", "Runtime::run", "Builder::max_itr", "Builder::max_time", "Builder::limit"]},
        "assumptions": [A_DLL, A_DUR, A_BOUNDS, A_NEW, A_HANDLER, A_CLOCK, A_BUILD, A_DERIVE, "Profiler::finish (Instant::now) leaves `remaining` untouched: assumed"],
        "not_covered": ["print-only `if !self.quiet {..}` blocks of finish are elided (R7)", "Runtime::start (prints, profiler, macro_rules, user at_sim_start) is an assumed contract; Runtime::run = start; dispatch_all; finish is proved against it"],
    },
    "C15": {
        "bundles": [], "kani": ["allocarith"], "replay": True,
        "assumptions": [A_KANI, "only the placement arithmetic is under contract: align_up, alloc_from_region, size_align"],
        "not_covered": ["BOUNDED only (replay/cq_driver, never counted as proved): every payload moved into a CQueue is returned bit for bit and dropped exactly once (fetch, cancel, queue drop with events pending), over all scripts up to the stated bound",
                        "BOUNDED only (replay/alloc_driver on the verbatim alloc.rs, never counted as proved): the free-list functions allocate/deallocate/find_region/add_free_region never hand out memory that overlaps a live allocation, is misaligned or lies outside the owned pages, over random mixed-layout histories",
                        "(not proved) free-list functions find_region/add_free_region/allocate/deallocate (&'static mut nodes written through int->ptr casts: Verus rejects, Kani ran out of memory), LocalBox, node ownership, drop-exactly-once of payloads, CQueue::drop order: no history-level claim (non-overlap over all histories, recycling) is made"],
    },
    "C16": {
        "bundles": ["chanbuf"], "kani": ["body"],
        "fns": {"chanbuf": ["Message::length", "Message::try_clone", "Message::set_content"]},
        "assumptions": [A_KANI, "'all body types' is covered by instances {u8,u32,u64,(),[u8;4],Tok(with Drop),Other,NoClone}"],
        "not_covered": ["the derive macro's byte_len (sum over fields of the active variant): des-macros-core is not covered", "Body::length is linked to the Verus unit by an assumed contract (proved on the Kani side)",
                        "BOUNDED only (replay/msg_driver, never counted as proved): the same clauses observed through Message (set_content with the same type again or another type, try_content(_mut), try_clone, matching and non-matching try_cast, drop; u32, u64, String, Vec<u8>, (), a drop-counting clonable type, a non-clonable type): readable as exactly the stored type and value, length() = 64 + declared byte length after every operation, every stored value dropped exactly once",
                        "BOUNDED only (replay/net_driver): 'which is the size channels charge for' - delivery times of messages in flight follow 64 + body length"],
    },
    "C05": {
        "bundles": ["interval"],
        "fns": {"interval": ["MissedTickBehavior::next_timeout"]},
        "kani": ["timers"],
        "assumptions": ["Kani/CBMC: loop-free harnesses over fully symbolic inputs (complete for the stated domain: times and periods up to 500 years); CBMC's integer model is trusted",
                        "only MissedTickBehavior::next_timeout is under contract (Verus unit interval: Burst, Delay and Skip, panic freedom of the u64 conversion for periods up to 2^64 ns; Kani unit timers: Burst / Delay once more on the real operator code, and the operator contracts the Verus unit assumes)",
                        "unit interval: Duration modelled by its nanosecond count (dn); SimTime shim = wrapper around a Duration; the three operator impls are assumed contracts (proved by the Kani harnesses simtime_{plus_duration,minus_duration,minus_simtime}_follows_nanoseconds for values up to 500 years)"],
        "not_covered": ["BOUNDED only (replay/timer_driver on the real crate, never counted as proved): a sleep / sleep_until / timeout / interval tick that is awaited completes exactly at its deadline - never earlier, never later, never not at all - whatever other timers of the module were created, polled once and dropped, reset or had fired; timeout returns Ok iff the inner future completes no later than the deadline; an elapsed deadline completes immediately; interval ticks follow the period and Burst / Delay / Skip after late ticks; the run ends with every task finished at the last deadline",
                        "(not proved) TimerQueue::{add,next,bump}, TimerSlot::{add,remove,wake_all}, TimerSlotEntryHandle::{drop,reset,resolve}, Sleep::poll/reset, Timeout::poll, Interval::poll_tick, ModuleRef::activate/deactivate: RefCell behind &self / Arc (no sound Verus view without rewriting them into a model); Kani: thread_local TIME_CTX makes kani-compiler panic (intrinsics.rs:243), and with the queue driven directly (driver.rs included under a host module) CBMC gave no verdict in 25 min for two timers",
                        "timers of shut-down / restarted modules (C09), tokio's scheduling of woken tasks (C06)"],
    },
    "C08": {
        "bundles": ["gatewalk"],
        "fns": {"gatewalk": ["MessageExitingConnection::handle_with_sink", "HandleMessageEvent::handle"]},
        "assumptions": ["the gate graph (Arc<Gate> + Mutex<Connections>) enters through ONE assumed contract: Connection::next_hop follows an abstract finite route (the hops that remain after a connection); that connect / next_hop really build and follow such routes - symmetric, at most two peers, mirror image from the other end - is only covered by the bounded replay driver",
                        "shims: opaque GateRef / ModuleRef / ChannelRef / Connection with accessor contracts (rule R19 turns the field access `.endpoint` into the accessor), Message reduced to header.last_gate + content, EventSink as a trait whose add appends to an abstract event list, ChannelRef::send_message recorded as 'took the message' (what the channel then does is C07), tracing statements dropped (R18)",
                        "SimTime::now() is an uninterpreted value (the delivery is scheduled for 'now')"],
        "not_covered": ["BOUNDED only (replay/gate_driver on the real crate, never counted as proved): Gate::connect / Connection::next_hop / path_iter - chains of 1..6 hops connected in any order and orientation enumerate g0..gk forward and as the exact mirror image backward, a connected pair can be connected again without effect, a gate with two peers refuses a third; end to end: a message sent on either endpoint gate is delivered exactly once to the owner of the far end at send time + sum over the hops of (latency + size*8/bitrate), with sender id, receiver id and final gate in the header",
                        "(not proved) Gate::connect, Connection::next_hop, PathIter, send / send_in / buf_send_at, HandleMessageEvent::handle (receiver id stamp), messages towards inactive modules (C09)"],
    },
    "C09": {
        "bundles": ["shutdownflow", "gatewalk"],
        "fns": {"shutdownflow": ["buf_process"], "gatewalk": ["MessageExitingConnection::handle_with_sink"]},
        "assumptions": ["unit shutdownflow: ghost step log written at the real call sites of buf_process; every callee is a shim with an assumed frame (global event buffer behind a mutex -> buf_lock / flush_events, the request flag behind an RwLock -> take_shutdown_request = the module's pending request, atomics / tokio runtime -> mark_inactive / shutdown_tasks, Runtime::add_event recorded not interpreted, user code behind reset()); tracing statements dropped (R18), the cfg attribute of the enabled feature `async` dropped (R18b)",
                        "unit gatewalk (shared with C08): the clause tagged C09 - a message standing at a gate whose owner is inactive is dropped, nothing is scheduled - under the assumed route contract of Connection::next_hop"],
        "not_covered": ["BOUNDED only (replay/shutdown_driver on the real crate, never counted as proved): from the end of the requesting event until the restart no handler, task or timer of the module runs (also not later), messages addressed to it or passing its gates in that window are dropped for good, Module::reset runs exactly once, the start-up stages run exactly once more at exactly the restart time, afterwards the module behaves like a freshly started one (new tasks tick, messages are handled), and the other modules and links are unaffected",
                        "(not proved) ModuleRef::{handle_message, async_wakeup, module_restart, reset} (RefCell / atomics behind &self, tokio harness), AsyncExt::reset and the tokio runtime shutdown, ModuleRestartEvent::handle, the shutdown API that sets the flag"],
    },
    "C13": {
        "bundles": ["panicflow"],
        "fns": {"panicflow": ["Harness::catch", "Harness::pass", "SimLifecycle@EventLifecycle::at_sim_start", "SimLifecycle@EventLifecycle::at_sim_end"]},
        "assumptions": ["catch_unwind has no semantics in the verifier: Harness::exec is outside the unit; the unit starts at its result, the field `unwind`",
                        "shims: Harness / PanicError with the payload as an opaque value, ModuleContext with the stereotype flag and the path as uninterpreted functions; the deactivation store (`active.store(false)`) is a call without a contract (a store through a shared reference cannot be stated)",
                        "error accumulation: RuntimeError::items() is the abstract content of the run's error object (extend / merge append: assumed), a ghost list collects at the real call sites what the module callbacks return; every callee outside the unit reports what it adds to the run's error (buf_process, the application's hooks) or does not touch it (deactivate)"],
        "not_covered": ["BOUNDED only (replay/panic_driver on the real crate, never counted as proved): the simulator never aborts; from its panic on the faulty module handles no message, echoes nothing and its timers do not fire during the run; the other modules see exactly what they would see had it fallen silent and are torn down once; run() lists exactly the panicked module, or succeeds if its stereotype catches panics; a subsequent simulation in the same process behaves normally",
                        "(not proved) Harness::exec (catch_unwind, tokio block_on), the deactivation itself, ModuleRef::{handle_message, at_sim_start, at_sim_end, async_wakeup} that map a caught panic to an Err, panic hook, joined tasks (JoinError)",
                        "tolerated by the driver, recorded as observations O7 / O8: a task of the faulty module is polled once more inside its at_sim_end; the later start-up stages of a module that panicked in an earlier stage still run"],
    },
    "C19": {
        "bundles": ["topology"],
        "fns": {"topology": ["Topology::bidirectional", "Topology::connected", "Topology::connected::visit"]},
        "assumptions": ["representation invariant wf() of a Topology value (one edge bundle per node, every edge ends at a node index of the view) is a precondition: that from_modules / spanned / filter_nodes / filter_edges establish and keep it is only covered by the bounded replay driver",
                        "ModuleRef / GateRef are opaque (never inspected by the functions under contract)",
                        "assumed contracts on std: <[T]>::contains (some element equals the argument), Iterator::any on a slice iterator (rewrite R8, helper any_by)",
                        "logged desugarings R14/R15 (`for (i, x) in v.iter().enumerate()` / `for x in &v` over a Vec -> while loop over an explicit cursor), R13 (range for), R16 (the nested fn `visit` is extracted as a function of its own)",
                        "edges are read at node level (a -> b); the gate labels of an edge are not part of the contracts"],
        "not_covered": ["BOUNDED only (replay/topo_driver on the real crate, never counted as proved): Topology::from_modules / Globals::topology and Topology::spanned produce exactly one node per module considered and one edge per gate-chain endpoint, from the owner of the endpoint to the owner of the far end, labelled with those two gates; spanned contains exactly the modules reachable from the root",
                        "BOUNDED only (replay/topo_driver): dijkstra (entries for exactly the reachable nodes other than the source; each entry is an edge leaving the source towards a node one hop closer to the target), filter_nodes (exactly the selected nodes in order, exactly the edges among them), filter_edges, edges_for",
                        "(not proved) dijkstra, filter_nodes, filter_edges, from_modules, spanned: FxHashMap, closures called through FnMut, retain/retain_mut, custom iterator, Arc<Gate> walks - outside the Verus subset without rewriting them into a model",
                        "with_node_attachments / with_edge_attachments / cost and connectivity attachments / as_dot / as_svg"],
    },
    "C14": {
        "bundles": ["processor"],
        "fns": {"processor": ["Processor::incoming_upstream", "Processor::incoming_downstream", "ProcessingState::bump_upstream", "ProcessingState::bump_downstream", "ProcessingStack::append"]},
        "assumptions": ["the calls made on stack elements are recorded in a ghost log written right after each real call site (rewrite R4b, tied to the call statements of the real code); elements are arbitrary user code (no assumption on what incoming returns)",
                        "shim declarations: trait ProcessingElement (supertrait Any and default bodies dropped), opaque Message, trait Module"],
        "not_covered": ["BOUNDED only (replay/net_driver): the bracket event_start -> incoming -> handler -> event_end at the ModuleRef entry points (net/module/refs.rs, net/runtime/events.rs: RefCell + tokio harness) for start-up, timer, message and tear-down events (also a tear-down that returns Err or fails to join a must-join task) with a two-element stack, one element consuming; emission order of the timers and send_in packets buffered in one activation",
                        "brackets of two events never interleave; emission order of sends; processing stacks supplied via Module::stack"],
    },
    "C07": {
        "bundles": ["chanbuf", "chansend"],
        "fns": {"chanbuf": ["Buffer::enqueue", "Buffer::dequeue", "ChannelDropBehaviour::handle", "Message::length"], "chansend": ["Channel::send_message"]},
        "assumptions": ["unit chansend (Channel::send_message): the state behind the RwLock is read once (R17 `self.inner.write().unwrap()` -> chan_write: busy flag and metrics 'at entry' are uninterpreted functions of the channel); ChannelMetrics::calculate_busy / calculate_duration (f64 arithmetic, jitter from the global RNG) are uninterpreted functions of (metrics, message); SimTime::now / SimTime + Duration uninterpreted; the probe and the drop policy do not touch the sink (they have no access to it); `self.set_busy_until(t)` is recorded in a ghost list of the sink at the real call site (R17) and ASSUMED to set busy = true, transmission_finish_time = t; Arc::clone yields the same channel; Duration != Duration::ZERO compares nanoseconds",
                        "opaque shims Header/Body/Connection; Body::length = declared length (Kani unit body)", "std: Option::map_or, VecDeque push_back/pop_front (vstd)", "mem::drop of a message has no effect on the buffer",
                        "precondition: accumulated bytes + message length <= usize::MAX (the comparison `acc_bytes + msg.length() > limit` is otherwise an overflow)", "configuration verified: feature `tracing` off (cfg'd statements are stripped)"],
        "not_covered": ["proved for Channel::send_message only as a DECISION: busy at entry => nothing scheduled, channel not re-marked; idle => marked busy until now + calculate_busy (not marked if that is 0 ns), exactly one unbusy notification at that time, exactly one MessageExitingConnection{via, msg} at now + calculate_duration. That calculate_busy = size*8/bitrate and calculate_duration = that + latency + jitter is NOT proved (f64): BOUNDED only (replay/net_driver)",
                        "BOUNDED only (replay/net_driver, never counted as proved): Channel::unbusy (loop over RwLock state: FIFO restart the instant the channel is idle), ChannelMetrics arithmetic, Drop/Queue policies end to end, delivered exactly once end to end, zero jitter",
                        "BOUNDED only (net_driver): with jitter > 0 every delivery lies in [start + size*8/bitrate + latency, ... + jitter) (sends 100 s apart; the distribution inside the window is not examined); busy times that round to 0 ns at very high bitrates (finding F4)",
                        "claimed as proved: the queue/drop accounting (Buffer invariant, FIFO, Drop and Queue(limit) policies) and the transmit decision of send_message"],
    },
    "C17": {
        "bundles": ["cfgmatch"],
        "fns": {"cfgmatch": ["Props::update_from", "is_compartment"]},
        "assumptions": ["serde_yml shims: Value is an enum of which only Mapping and String carry structure; Mapping is an opaque ordered list of entries ent(); ASSUMED: Mapping::get(&str) finds an entry with that string key iff one exists, keys are unique, iterating a mapping yields its entries (rewrite R20 -> map_pairs), `map.keys().filter_map(Value::as_str)` contains every string key (R17 -> string_keys; nothing is assumed about further elements such as untagged tagged strings), Value::clone yields an equal value",
                        "strings: vstd's view of str / String as a sequence of chars; byte offsets through an uninterpreted UTF-8 length ulen with ASSUMED additivity and ulen('.') = 1; ASSUMED contracts of the shims the string operations are rewritten to (R17, each tied to the exact expression text): starts_with = char prefix, `k[n..].starts_with('.')` and `&s[n..]` require n to be a char boundary (a prefix of that byte length exists) and then look at / return the rest, String::len = ulen, contains(<any>) uninterpreted",
                        "Props shim: `set` is recorded in a ghost list (first-write-wins of the real FxHashMap entry API is not modelled); the recursion of update_from is verified with decreases path.len()",
                        "the specification `addressed` is written for the NESTED form that Cfg::new produces; that compartmentalize_map produces the nested form of a flat configuration is not proved (bounded replay)"],
        "not_covered": ["BOUNDED only (replay/cfg_driver, never counted as proved): Cfg::new / compartmentalize_map (finding F10 was there), Props::set / keys / get_raw, a second configuration captured into the same Props, a typed property written before the configuration arrives keeps value and type, no panic for non-ASCII names; flat dotted-key configurations only, values are integers",
                        "BOUNDED only (replay/cfgsim_driver): the order of Sim::include_cfg and Sim::node (des/src/net/runtime/mod.rs) does not matter: every module of a random small tree ends up with exactly the properties addressed to it",
                        "(not covered at all) typed reads `Prop<T>` beyond the one case above, des/src/net/ndl/mod.rs, YAML parsing"],
    },
    "C18": {
        "bundles": ["ndlparse"],
        "fns": {"ndlparse": ["TypClause@FromStr::from_str", "ModuleGenericsDef@FromStr::from_str", "FieldDef@FromStr::from_str"]},
        "assumptions": ["totality only: every std string operation of the three parsers (split_once, ends_with, trim, trim_end_matches, to_string, parse::<usize>, format!) is rewritten (R17, tied to the exact expression text) to a shim without precondition - ASSUMED: none of them panics; `assert!(c)` of the real code is an obligation (R1: rt_assert requires c); the std trait FromStr is restated inside the unit",
                        "`rem.split(\", \").map(Arg::from_str).collect::<Result<Vec<_>, _>>().map_err(..)` is one shim (parse_args): total if Arg::from_str is - for ModuleGenericsDef that is verified here, for String it is std"],
        "not_covered": ["BOUNDED only (replay/ndl_driver, never counted as proved): ndl::transform and everything below it (dependency ordering, inheritance, generics, clusters, connections: FxHashMap lookups with `.expect(\"unreachable: parse order ...\")`, asserts, index expressions) never panics on generated descriptions and single-point mutations; mutated descriptions are answered with an error; unmutated descriptions elaborate to the network the template denotes (reference for this one template). Findings F12 and F14 were there",
                        "BOUNDED only (replay/ndlsim_driver): the simulation BUILT from an unmutated template description (SimBuilder::nodes_from_ndl, des/src/net/ndl/mod.rs) has exactly the denoted module paths and gate chains (topology view); link parameters of the built channels and registered software are not compared",
                        "(not covered at all) descriptions outside the one template; serde's own parsing of the YAML document"],
    },
    "C12": {
        "bundles": ["moduletree", "lifecycle"],
        "fns": {"moduletree": ["ModuleTree::add"], "lifecycle": ["SimLifecycle@EventLifecycle::at_sim_start", "SimLifecycle@EventLifecycle::at_sim_end"]},
        "assumptions": ["unit lifecycle: ghost call log written right after each real call site of ModuleRef::at_sim_start / at_sim_end (rewrite R4b / R17); everything the two loops call (mutex lock + clone of the module vector, activate / deactivate, buf_process, the application's own lifecycle hooks, panic hook, scopes) is a shim with an ASSUMED frame: the module vector does not change during start-up / tear-down; a module's num_sim_start_stages() is constant; the tracing feature is off (R18)",
                        "ObjectPath (des/src/net/path.rs, string slicing) is opaque: abstract value = sequence of segments; parent() = drop the last segment, is_root/len/== follow the segments: assumed contracts",
                        "ModuleRef shim: the Arc<ModuleContext> deref is collapsed to a struct with the `path` field",
                        "precondition: the path to add is not yet in the tree (the builder's duplicate check is outside this unit)"],
        "not_covered": ["BOUNDED only (replay/tree_driver, never counted as proved): what lies between the two proved units and the user's callbacks - ModuleRef::at_sim_start / at_sim_end really reach the module's handler once per call (harness, catch_unwind, inactive modules), and the order as observed through the public API: 'all stage-i calls precede stage-(i+1)', 'each (module, stage) exactly once', depth-first pre-order with siblings in creation order as observed through the public API, at_sim_end exactly once per module - also for the other modules when one module panics in a start-up stage, and for a module that shut itself down without restart",
                        "builder panics for duplicate path / missing parent (only 'add returns normally => the parent was present' is proved)", "ObjectPath implementation, parent/child lookups"],
    },
}
