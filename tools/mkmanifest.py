#!/usr/bin/env python3
"""Writes /verif/MANIFEST.json from tools/props.py + the texts below (kept in one place so the manifest stays valid)."""
import json, os, sys
ROOT = os.path.dirname(os.path.dirname(os.path.abspath(__file__)))
sys.path.insert(0, os.path.join(ROOT, "tools"))
from props import PROPS
from manifest_texts import LEVEL, NOT_APPLICABLE, TECHNIQUE

checks = []
for pid in sorted(PROPS):
    checks.append({
        "property_id": pid,
        "quick_cmd": "./check %s --tier quick" % pid,
        "thorough_cmd": "./check %s --tier thorough" % pid,
        "evidence_file": "/verif/evidence/%s.json" % pid,
        "replay_cmd_template": "./check --replay {path}",
        "engine": "contracts",
        "level_claimed": {"category": LEVEL[pid].get("category", "proof"), "text": LEVEL[pid]["text"], "design_ref": "DESIGN.md §5 " + pid},
        "level_note": LEVEL[pid]["note"],
        "technique": TECHNIQUE[pid],
    })
m = {
    "version": 1,
    "setup_cmd": "./check setup",
    "hooks": {
        "guard": "petrichorit_des_verif",
        "enable": "no hook is needed: every check re-extracts the functions under contract from /repo's working tree (tools/vx) and verifies the generated file; Kani units #[path]-include the real files",
        "baseline_off_cmd": "cd /repo && cargo nextest run --workspace --no-fail-fast --tool-config-file pb:/w/lib/nextest.toml --profile pb --test-threads 8 --offline || cargo test --workspace --no-fail-fast --offline",
        "source_commits": [],
        "add_only": True,
    },
    "engines": [
        {"name": "contracts", "path": "/verif/check", "serves_properties": sorted(PROPS),
         "kind_free_text": "contract-based deductive verification: tools/vx copies the real functions from /repo into one Verus file per unit together with the overlay (units/*.vrs: requires/ensures/invariants/lemmas), Verus+z3 discharges every obligation; Kani/CBMC for pointer-level files included verbatim"},
    ],
    "checks": checks,
    "not_applicable": [{"property_id": k, "reason": v} for k, v in sorted(NOT_APPLICABLE.items()) if k not in PROPS],
    "notes": "exit 2 = undecided (lost anchor, construct outside the verifier subset, resource limit, vacuity guard) — never reported as a violation. Genuine defects found and repaired in /repo: see known-findings.txt (fixed: lines) and DESIGN.md §6.",
}
json.dump(m, open(os.path.join(ROOT, "MANIFEST.json"), "w"), indent=1)
print("MANIFEST.json written:", len(checks), "checks,", len(m["not_applicable"]), "not applicable")
