"""Bounded replay of the abstract event-set contract on the real code (replay/cq_driver).

Used (a) to turn a failed or undecided obligation of unit `core` into a concrete failing input replayed on the real
CQueue, and (b) as the BOUNDED stand-in for the assumed DualLinkedList contract. Never counted as a proof.
"""
import os, json, subprocess, time, fcntl, hashlib, shutil

ROOT = os.path.dirname(os.path.dirname(os.path.abspath(__file__)))
WORK_BASE = os.environ.get("VERIF_WORK", "/var/tmp/des-verif-work")
FAMILY = {"C01", "C02", "C03", "C10", "C11", "C15"}


def _build(repo):
    os.makedirs(WORK_BASE, exist_ok=True)
    tag = hashlib.sha1(repo.encode()).hexdigest()[:8]
    d = os.path.join(WORK_BASE, "cq_driver-" + tag)
    os.makedirs(os.path.join(d, "src"), exist_ok=True)
    cargo = open(os.path.join(ROOT, "replay/cq_driver/Cargo.toml")).read().replace("@REPO@", repo)
    open(os.path.join(d, "Cargo.toml"), "w").write(cargo)
    shutil.copy(os.path.join(ROOT, "replay/cq_driver/src/main.rs"), os.path.join(d, "src/main.rs"))
    lock = os.path.join(ROOT, "replay/cq_driver/Cargo.lock")
    if os.path.exists(lock):
        shutil.copy(lock, os.path.join(d, "Cargo.lock"))
    env = dict(os.environ, CARGO_NET_OFFLINE="true")
    p = subprocess.run(["cargo", "build", "--offline"], cwd=d, env=env, stdout=subprocess.PIPE, stderr=subprocess.STDOUT, timeout=900)
    out = p.stdout.decode("utf8", "replace")
    if p.returncode != 0:
        errs = [l for l in out.splitlines() if l.startswith("error")]
        return None, (errs or [out[-300:]])[0]
    return os.path.join(d, "target/debug/cq_driver"), None


def cq_search(repo, prop, tier, seed=1):
    t0 = time.time()
    lockf = open(os.path.join(WORK_BASE, "cq_driver.lock"), "w") if os.path.isdir(WORK_BASE) or not os.makedirs(WORK_BASE, exist_ok=True) else None
    fcntl.flock(lockf, fcntl.LOCK_EX)
    try:
        exe, err = _build(repo)
        depth, nrandom = (6, 30000) if tier == "thorough" else (5, 5000)
        res = {"what": "bounded replay of the abstract event-set contract (a_add/a_fetch/a_cancel/a_peek made executable) on the real des-cqueue: every script of add/fetch/cancel/peek up to length %d over 7 (bucket count, width) parameterisations and a timestamp grid (ties, bucket and year boundaries), plus %d seeded random long scripts (incl. far-future timestamps around 2^64 ns)" % (depth, nrandom),
               "bound": "script length <= %d exhaustive; %d random scripts of length <= 200; seed %d" % (depth, nrandom, seed), "labelled": "bounded", "counts_as_proof": False}
        if exe is None:
            res.update({"status": "not_run", "reason": "driver does not build against this tree: " + err, "wall_s": round(time.time() - t0, 2)})
            return res
        try:
            p = subprocess.run([exe, "search", str(depth), str(nrandom), str(seed), prop], stdout=subprocess.PIPE, stderr=subprocess.PIPE, timeout=(1800 if tier == "thorough" else 300))
        except subprocess.TimeoutExpired:
            res.update({"status": "not_run", "reason": "bounded replay exceeded its time limit", "wall_s": round(time.time() - t0, 2)})
            return res
        if p.returncode < 0 or p.returncode in (134, 139):
            # the real code killed the process (SIGSEGV / abort): memory unsafety. Re-run with tracing to name the script.
            sig = -p.returncode if p.returncode < 0 else p.returncode - 128
            try:
                p2 = subprocess.run([exe, "search", str(depth), str(nrandom), str(seed), prop], stdout=subprocess.PIPE, stderr=subprocess.PIPE, timeout=1800, env=dict(os.environ, CQ_TRACE="1"))
                traced = [l for l in p2.stderr.decode("utf8", "replace").splitlines() if l.startswith('{"n":')]
                sc = json.loads(traced[-1]) if traced else {}
            except Exception:
                sc = {}
            res.update({"status": "mismatch", "wall_s": round(time.time() - t0, 2),
                        "mismatch": dict(sc, mismatch=True, origin="crash", kind="process-killed-by-signal-%d" % sig, props="C01 C03 C15",
                                         expected="every script runs to its end", observed="the real code crashed the process (signal %d) while running this script" % sig)})
            return res
        line = (p.stdout.decode("utf8", "replace").strip().splitlines() or ["{}"])[-1]
        try:
            j = json.loads(line)
        except Exception:
            j = {}
        res["wall_s"] = round(time.time() - t0, 2)
        res["cmd"] = "cq_driver search %d %d %d %s   (built from replay/cq_driver against %s/des-cqueue)" % (depth, nrandom, seed, prop, repo)
        if j.get("mismatch"):
            res.update({"status": "mismatch", "mismatch": j})
        elif "scripts" in j:
            res.update({"status": "no_mismatch", "scripts": j["scripts"], "other_property_mismatch": j.get("other") or None})
        else:
            res.update({"status": "not_run", "reason": "driver crashed: " + p.stderr.decode("utf8", "replace")[-300:]})
        return res
    finally:
        if repo != "/repo" and not os.environ.get("VERIF_KEEP_CACHE"):
            tag = hashlib.sha1(repo.encode()).hexdigest()[:8]
            shutil.rmtree(os.path.join(WORK_BASE, "cq_driver-" + tag), ignore_errors=True)
        fcntl.flock(lockf, fcntl.LOCK_UN)
        lockf.close()


def cq_replay(repo, script_json):
    exe, err = _build(repo)
    if exe is None:
        return "driver does not build: " + err
    p = subprocess.run([exe, "replay", script_json], stdout=subprocess.PIPE, stderr=subprocess.PIPE, timeout=600)
    return p.stdout.decode("utf8", "replace").strip()


RT_FAMILY = {"C02", "C03", "C10", "C11"}


def _build_rt(repo, name="rt_driver"):
    os.makedirs(WORK_BASE, exist_ok=True)
    tag = hashlib.sha1(repo.encode()).hexdigest()[:8]
    d = os.path.join(WORK_BASE, name + "-" + tag)
    os.makedirs(os.path.join(d, "src"), exist_ok=True)
    cargo = open(os.path.join(ROOT, "replay", name, "Cargo.toml")).read().replace("@REPO@", repo)
    open(os.path.join(d, "Cargo.toml"), "w").write(cargo)
    shutil.copy(os.path.join(ROOT, "replay", name, "src/main.rs"), os.path.join(d, "src/main.rs"))
    for cand in (os.path.join(repo, "Cargo.lock"), "/repo/Cargo.lock"):
        if os.path.exists(cand):
            shutil.copy(cand, os.path.join(d, "Cargo.lock"))
            break
    # rt_driver and tree_driver share one target directory per tree: `des` and its dependencies are compiled once
    tdir = os.path.join(WORK_BASE, "des-drivers-target-" + tag)
    env = dict(os.environ, CARGO_NET_OFFLINE="true", RUSTFLAGS="--cfg tokio_unstable", CARGO_TARGET_DIR=tdir)
    p = subprocess.run(["cargo", "build", "--offline"], cwd=d, env=env, stdout=subprocess.PIPE, stderr=subprocess.STDOUT, timeout=1800)
    out = p.stdout.decode("utf8", "replace")
    if p.returncode != 0:
        errs = [l for l in out.splitlines() if l.startswith("error")]
        return None, (errs or [out[-300:]])[0]
    return os.path.join(tdir, "debug", name), None


def rt_search(repo, prop, tier, seed=1):
    """Runtime-level bounded replay (replay/rt_driver): seeded random scenarios on the real `des` crate."""
    t0 = time.time()
    os.makedirs(WORK_BASE, exist_ok=True)
    lockf = open(os.path.join(WORK_BASE, "rt_driver.lock"), "w")
    fcntl.flock(lockf, fcntl.LOCK_EX)
    try:
        count = 300000 if tier == "thorough" else 30000
        res = {"what": "bounded replay of the Runtime-level contracts (dispatch_event / dispatch_all / dispatch_n_events / dispatch_events_until / finish / add_event) on the real `des` crate against an executable reference (abstract event set + applies_spec + stepping semantics): %d seeded random scenarios (initial events with ties and bucket/year boundaries, handler follow-ups incl. zero delay, start times, limit trees via Builder, step schedules with external adds while paused)" % count,
               "bound": "%d random scenarios, <= 4 initial events, <= 6 follow-ups, <= 5 steps; seed %d" % (count, seed), "labelled": "bounded", "counts_as_proof": False}
        exe, err = _build_rt(repo)
        if exe is None:
            res.update({"status": "not_run", "reason": "driver does not build against this tree: " + err, "wall_s": round(time.time() - t0, 2)})
            return res
        try:
            p = subprocess.run([exe, "search", str(count), str(seed), prop], stdout=subprocess.PIPE, stderr=subprocess.PIPE, timeout=900)
        except subprocess.TimeoutExpired:
            res.update({"status": "mismatch", "mismatch": {"kind": "scenario-does-not-return", "props": "C02 C10 C11", "expected": "every scenario terminates", "observed": "no result within 900 s"}, "wall_s": round(time.time() - t0, 2)})
            return res
        line = (p.stdout.decode("utf8", "replace").strip().splitlines() or ["{}"])[-1]
        try:
            j = json.loads(line)
        except Exception:
            j = {}
        res["wall_s"] = round(time.time() - t0, 2)
        res["cmd"] = "rt_driver search %d %d %s   (built from replay/rt_driver against %s/des)" % (count, seed, prop, repo)
        if j.get("mismatch"):
            res.update({"status": "mismatch", "mismatch": j})
        elif "scenarios" in j:
            res.update({"status": "no_mismatch", "scenarios": j["scenarios"], "other_property_mismatch": j.get("other") or None})
        else:
            res.update({"status": "not_run", "reason": "driver crashed: " + p.stderr.decode("utf8", "replace")[-300:]})
        return res
    finally:
        if repo != "/repo" and not os.environ.get("VERIF_KEEP_CACHE"):
            tag = hashlib.sha1(repo.encode()).hexdigest()[:8]
            shutil.rmtree(os.path.join(WORK_BASE, "rt_driver-" + tag), ignore_errors=True)
            shutil.rmtree(os.path.join(WORK_BASE, "des-drivers-target-" + tag), ignore_errors=True)
        fcntl.flock(lockf, fcntl.LOCK_UN)
        lockf.close()


def tree_search(repo, prop, tier, seed=1):
    """C12 bounded replay (replay/tree_driver): random module trees / insertion orders / stage counts on the real `des` crate."""
    t0 = time.time()
    os.makedirs(WORK_BASE, exist_ok=True)
    lockf = open(os.path.join(WORK_BASE, "rt_driver.lock"), "w")
    fcntl.flock(lockf, fcntl.LOCK_EX)
    try:
        count = 100000 if tier == "thorough" else 5000
        res = {"what": "bounded replay of C12 on the real `des` crate: %d seeded random module trees (<= 9 modules, depth <= 4, sibling names that are textual prefixes of each other), random admissible creation orders, 1..3 start-up stages per module; observed at_sim_start/at_sim_end calls against the reference (stage-major; inside a stage depth-first pre-order, siblings in creation order; each (module, stage) once; at_sim_end once per module, after all starts)" % count,
               "bound": "%d random scenarios; seed %d" % (count, seed), "labelled": "bounded", "counts_as_proof": False}
        exe, err = _build_rt(repo, "tree_driver")
        if exe is None:
            res.update({"status": "not_run", "reason": "driver does not build against this tree: " + err, "wall_s": round(time.time() - t0, 2)})
            return res
        try:
            p = subprocess.run([exe, "search", str(count), str(seed)], stdout=subprocess.PIPE, stderr=subprocess.PIPE, timeout=900)
        except subprocess.TimeoutExpired:
            res.update({"status": "not_run", "reason": "time limit", "wall_s": round(time.time() - t0, 2)})
            return res
        line = (p.stdout.decode("utf8", "replace").strip().splitlines() or ["{}"])[-1]
        try:
            j = json.loads(line)
        except Exception:
            j = {}
        res["wall_s"] = round(time.time() - t0, 2)
        res["cmd"] = "tree_driver search %d %d   (built from replay/tree_driver against %s/des)" % (count, seed, repo)
        if j.get("mismatch"):
            res.update({"status": "mismatch", "mismatch": j})
        elif "scenarios" in j:
            res.update({"status": "no_mismatch", "scenarios": j["scenarios"], "sample": j.get("sample")})
        else:
            res.update({"status": "not_run", "reason": "driver crashed: " + p.stderr.decode("utf8", "replace")[-300:]})
        return res
    finally:
        if repo != "/repo" and not os.environ.get("VERIF_KEEP_CACHE"):
            tag = hashlib.sha1(repo.encode()).hexdigest()[:8]
            shutil.rmtree(os.path.join(WORK_BASE, "tree_driver-" + tag), ignore_errors=True)
            shutil.rmtree(os.path.join(WORK_BASE, "des-drivers-target-" + tag), ignore_errors=True)
        fcntl.flock(lockf, fcntl.LOCK_UN)
        lockf.close()


def net_search(repo, prop, tier, seed=1):
    """C07 / C14 / C03 bounded replay (replay/net_driver): one module looped through a channel, on the real `des` crate."""
    t0 = time.time()
    os.makedirs(WORK_BASE, exist_ok=True)
    lockf = open(os.path.join(WORK_BASE, "rt_driver.lock"), "w")
    fcntl.flock(lockf, fcntl.LOCK_EX)
    try:
        count = 200000 if tier == "thorough" else 8000
        res = {"what": "bounded replay on the real `des` crate of the parts no contract reaches: Channel::send_message / unbusy (busy window = size*8/bitrate, delivery = start + busy + latency, Drop / Queue(None) / Queue(limit) incl. 0, FIFO restart at the instant the channel becomes idle, offers exactly at the end of a transmission), the processing-element bracket at the module entry points (two elements, one consuming), and the emission order of events buffered in one activation (bursts of > 20 timers with ties): %d seeded random scenarios against a reference built on the abstract event order of unit core; jitter = 0" % count,
               "bound": "%d random scenarios, <= 6 sends (every 10th: 22..41 timers); seed %d" % (count, seed), "labelled": "bounded", "counts_as_proof": False}
        exe, err = _build_rt(repo, "net_driver")
        if exe is None:
            res.update({"status": "not_run", "reason": "driver does not build against this tree: " + err, "wall_s": round(time.time() - t0, 2)})
            return res
        try:
            p = subprocess.run([exe, "search", str(count), str(seed), prop], stdout=subprocess.PIPE, stderr=subprocess.PIPE, timeout=900)
        except subprocess.TimeoutExpired:
            res.update({"status": "not_run", "reason": "time limit", "wall_s": round(time.time() - t0, 2)})
            return res
        line = (p.stdout.decode("utf8", "replace").strip().splitlines() or ["{}"])[-1]
        try:
            j = json.loads(line)
        except Exception:
            j = {}
        res["wall_s"] = round(time.time() - t0, 2)
        res["cmd"] = "net_driver search %d %d %s   (built from replay/net_driver against %s/des)" % (count, seed, prop, repo)
        if j.get("mismatch"):
            res.update({"status": "mismatch", "mismatch": j})
        elif "scenarios" in j:
            res.update({"status": "no_mismatch", "scenarios": j["scenarios"], "other_property_mismatch": j.get("other") or None})
        else:
            res.update({"status": "not_run", "reason": "driver crashed: " + p.stderr.decode("utf8", "replace")[-300:]})
        return res
    finally:
        if repo != "/repo" and not os.environ.get("VERIF_KEEP_CACHE"):
            tag = hashlib.sha1(repo.encode()).hexdigest()[:8]
            shutil.rmtree(os.path.join(WORK_BASE, "net_driver-" + tag), ignore_errors=True)
            shutil.rmtree(os.path.join(WORK_BASE, "des-drivers-target-" + tag), ignore_errors=True)
        fcntl.flock(lockf, fcntl.LOCK_UN)
        lockf.close()


def alloc_search(repo, prop, tier, seed=1):
    """C15 bounded replay (replay/alloc_driver): random allocate/deallocate histories on the verbatim alloc.rs."""
    t0 = time.time()
    os.makedirs(WORK_BASE, exist_ok=True)
    lockf = open(os.path.join(WORK_BASE, "cq_driver.lock"), "w")
    fcntl.flock(lockf, fcntl.LOCK_EX)
    tag = hashlib.sha1(repo.encode()).hexdigest()[:8]
    d = os.path.join(WORK_BASE, "alloc_driver-" + tag)
    try:
        count = 300000 if tier == "thorough" else 30000
        res = {"what": "bounded replay of the page allocator (des-cqueue/src/stable/alloc.rs included verbatim): %d seeded random histories of allocate/deallocate with mixed sizes (1..2000, and every fourth pick relative to the page: exactly half a page, 8 bytes below / above it, a quarter, three eighths) and alignments (1..16), page sizes 4096/8192/16384, every third history with one uniform layout; shadow model: every block inside a page the allocator owns, aligned as requested, disjoint from every live block, contents intact until released" % count,
               "bound": "%d histories of 5..64 operations; seed %d" % (count, seed), "labelled": "bounded", "counts_as_proof": False}
        os.makedirs(os.path.join(d, "src"), exist_ok=True)
        for f in ("Cargo.toml", "Cargo.lock"):
            shutil.copy(os.path.join(ROOT, "replay/alloc_driver", f), os.path.join(d, f))
        open(os.path.join(d, "src/main.rs"), "w").write(open(os.path.join(ROOT, "replay/alloc_driver/src/main.rs")).read().replace("@REPO@", repo))
        env = dict(os.environ, CARGO_NET_OFFLINE="true")
        p = subprocess.run(["cargo", "build", "--offline"], cwd=d, env=env, stdout=subprocess.PIPE, stderr=subprocess.STDOUT, timeout=900)
        if p.returncode != 0:
            out = p.stdout.decode("utf8", "replace")
            errs = [l for l in out.splitlines() if l.startswith("error")]
            res.update({"status": "not_run", "reason": "driver does not build against this tree: " + (errs or [out[-300:]])[0], "wall_s": round(time.time() - t0, 2)})
            return res
        exe = os.path.join(d, "target/debug/alloc_driver")
        try:
            p = subprocess.run([exe, "search", str(count), str(seed)], stdout=subprocess.PIPE, stderr=subprocess.PIPE, timeout=900)
        except subprocess.TimeoutExpired:
            res.update({"status": "mismatch", "mismatch": {"mismatch": True, "kind": "allocator-does-not-return", "props": "C15", "expected": "every history terminates", "observed": "no result within 900 s"}, "wall_s": round(time.time() - t0, 2)})
            return res
        res["wall_s"] = round(time.time() - t0, 2)
        res["cmd"] = "alloc_driver search %d %d   (built from replay/alloc_driver, include!(%s/des-cqueue/src/stable/alloc.rs))" % (count, seed, repo)
        if p.returncode < 0 or p.returncode in (134, 139):
            sig = -p.returncode if p.returncode < 0 else p.returncode - 128
            res.update({"status": "mismatch", "mismatch": {"mismatch": True, "kind": "process-killed-by-signal-%d" % sig, "props": "C15", "expected": "every history runs to its end", "observed": "the allocator crashed the process (signal %d)" % sig}})
            return res
        line = (p.stdout.decode("utf8", "replace").strip().splitlines() or ["{}"])[-1]
        try:
            j = json.loads(line)
        except Exception:
            j = {}
        if j.get("mismatch"):
            res.update({"status": "mismatch", "mismatch": j})
        elif "scenarios" in j:
            res.update({"status": "no_mismatch", "scenarios": j["scenarios"], "sample": j.get("sample")})
        else:
            res.update({"status": "not_run", "reason": "driver crashed: " + p.stderr.decode("utf8", "replace")[-300:]})
        return res
    finally:
        if repo != "/repo" and not os.environ.get("VERIF_KEEP_CACHE"):
            shutil.rmtree(d, ignore_errors=True)
        fcntl.flock(lockf, fcntl.LOCK_UN)
        lockf.close()


def topo_search(repo, prop, tier, seed=1):
    """C19 bounded replay (replay/topo_driver): random simulations / gate chains on the real `des` crate; topology views and queries against a reference."""
    t0 = time.time()
    os.makedirs(WORK_BASE, exist_ok=True)
    lockf = open(os.path.join(WORK_BASE, "rt_driver.lock"), "w")
    fcntl.flock(lockf, fcntl.LOCK_EX)
    try:
        count = 300000 if tier == "thorough" else 20000
        res = {"what": "bounded replay of C19 on the real `des` crate: %d seeded random simulations (2..8 modules, some nested; 0..16 gate chains with 0..3 transit gates, every 7th scenario one chain with 17..24 transit gates; self-links, parallel links, unconnected gates; hops connected in random order and orientation). Globals::topology (= Topology::from_modules) and Topology::spanned from a random root are compared node for node and edge for edge (owner of the endpoint -> owner of the far end, labelled with exactly those two gates) with the list of chains the driver built; connected / bidirectional (also after filter_edges with a pseudo-random predicate and with the two one-directional predicates 'towards a later node' / 'towards an earlier node'), Topology::from_modules over a random subset of the modules, dijkstra from every node (entries for exactly the reachable nodes other than the source; first hop leaves the source towards a node one hop closer), filter_nodes (random subsets), filter_edges and edges_for against a reference implementation" % count,
               "bound": "%d random scenarios; seed %d" % (count, seed), "labelled": "bounded", "counts_as_proof": False}
        exe, err = _build_rt(repo, "topo_driver")
        if exe is None:
            res.update({"status": "not_run", "reason": "driver does not build against this tree: " + err, "wall_s": round(time.time() - t0, 2)})
            return res
        try:
            p = subprocess.run([exe, "search", str(count), str(seed)], stdout=subprocess.PIPE, stderr=subprocess.PIPE, timeout=900)
        except subprocess.TimeoutExpired:
            res.update({"status": "mismatch", "mismatch": {"mismatch": True, "kind": "topology-call-does-not-return", "props": "C19", "expected": "every scenario terminates", "observed": "no result within 900 s"}, "wall_s": round(time.time() - t0, 2)})
            return res
        line = (p.stdout.decode("utf8", "replace").strip().splitlines() or ["{}"])[-1]
        try:
            j = json.loads(line)
        except Exception:
            j = {}
        res["wall_s"] = round(time.time() - t0, 2)
        res["cmd"] = "topo_driver search %d %d   (built from replay/topo_driver against %s/des)" % (count, seed, repo)
        if j.get("mismatch"):
            res.update({"status": "mismatch", "mismatch": j})
        elif "scenarios" in j:
            res.update({"status": "no_mismatch", "scenarios": j["scenarios"], "sample": j.get("sample")})
        else:
            err = p.stderr.decode("utf8", "replace")
            pan = [l for l in err.splitlines() if "panicked at" in l]
            if pan and "des/src/net/topology.rs" in pan[0]:
                res.update({"status": "mismatch", "mismatch": {"mismatch": True, "kind": "topology-call-panicked", "props": "C19", "expected": "views and queries return for every simulation built through the public API", "observed": (pan[0] + " " + err[err.find(pan[0]) + len(pan[0]):][:200]).replace('"', "'")}})
            else:
                res.update({"status": "not_run", "reason": "driver crashed: " + err[-300:]})
        return res
    finally:
        if repo != "/repo" and not os.environ.get("VERIF_KEEP_CACHE"):
            tag = hashlib.sha1(repo.encode()).hexdigest()[:8]
            shutil.rmtree(os.path.join(WORK_BASE, "topo_driver-" + tag), ignore_errors=True)
            shutil.rmtree(os.path.join(WORK_BASE, "des-drivers-target-" + tag), ignore_errors=True)
        fcntl.flock(lockf, fcntl.LOCK_UN)
        lockf.close()


def timer_search(repo, prop, tier, seed=1):
    """C05 bounded replay (replay/timer_driver): random timer programs in async modules on the real `des` crate."""
    t0 = time.time()
    os.makedirs(WORK_BASE, exist_ok=True)
    lockf = open(os.path.join(WORK_BASE, "rt_driver.lock"), "w")
    fcntl.flock(lockf, fcntl.LOCK_EX)
    try:
        count = 300000 if tier == "thorough" else 20000
        res = {"what": "bounded replay of C05 on the real `des` crate: %d seeded random scenarios of 1..2 modules x 1..3 tasks, each task a program of 1..5 timer operations (sleep, sleep_until incl. elapsed deadlines, timeout around a sleep and around a never-ready future, a sleep polled once and dropped, a pinned sleep that is reset, interval with Burst / Delay / Skip and late ticks, timeout_at, interval_at incl. a start in the past, Interval::reset, a sub-task aborted while it sleeps, timeouts and sleeps with durations that are not representable as a deadline (u64::MAX seconds, Duration::MAX)); all durations are multiples of 10 ms in 0..50 ms so timers share deadlines, except for intervals with periods of 2.5 / 7.3 / 10.4 ms and one tick that is late by 5.3..13 ms (sub-millisecond arithmetic of the missed-tick behaviours). Every completion is logged with SimTime::now() and compared with the deadline the property prescribes; results of timeout (Ok iff inner <= deadline) and the values returned by Interval::tick are compared too; 0..3 self-messages per module (activations that are not timer wake-ups) and debounce tasks whose sleep every message resets; the run must return Ok with every task finished and must not end before the last deadline" % count,
               "bound": "%d random scenarios; seed %d" % (count, seed), "labelled": "bounded", "counts_as_proof": False}
        exe, err = _build_rt(repo, "timer_driver")
        if exe is None:
            res.update({"status": "not_run", "reason": "driver does not build against this tree: " + err, "wall_s": round(time.time() - t0, 2)})
            return res
        try:
            p = subprocess.run([exe, "search", str(count), str(seed)], stdout=subprocess.PIPE, stderr=subprocess.PIPE, timeout=900)
        except subprocess.TimeoutExpired:
            res.update({"status": "mismatch", "mismatch": {"mismatch": True, "kind": "scenario-does-not-return", "props": "C05", "expected": "every scenario terminates", "observed": "no result within 900 s"}, "wall_s": round(time.time() - t0, 2)})
            return res
        line = (p.stdout.decode("utf8", "replace").strip().splitlines() or ["{}"])[-1]
        try:
            j = json.loads(line)
        except Exception:
            j = {}
        res["wall_s"] = round(time.time() - t0, 2)
        res["cmd"] = "timer_driver search %d %d   (built from replay/timer_driver against %s/des)" % (count, seed, repo)
        if j.get("mismatch"):
            res.update({"status": "mismatch", "mismatch": j})
        elif "scenarios" in j:
            res.update({"status": "no_mismatch", "scenarios": j["scenarios"], "sample": j.get("sample")})
        else:
            res.update({"status": "not_run", "reason": "driver crashed: " + p.stderr.decode("utf8", "replace")[-300:]})
        return res
    finally:
        if repo != "/repo" and not os.environ.get("VERIF_KEEP_CACHE"):
            tag = hashlib.sha1(repo.encode()).hexdigest()[:8]
            shutil.rmtree(os.path.join(WORK_BASE, "timer_driver-" + tag), ignore_errors=True)
            shutil.rmtree(os.path.join(WORK_BASE, "des-drivers-target-" + tag), ignore_errors=True)
        fcntl.flock(lockf, fcntl.LOCK_UN)
        lockf.close()


def gate_search(repo, prop, tier, seed=1):
    """C08 bounded replay (replay/gate_driver): random gate chains with channels on the real `des` crate."""
    t0 = time.time()
    os.makedirs(WORK_BASE, exist_ok=True)
    lockf = open(os.path.join(WORK_BASE, "rt_driver.lock"), "w")
    fcntl.flock(lockf, fcntl.LOCK_EX)
    try:
        count = 300000 if tier == "thorough" else 20000
        res = {"what": "bounded replay of C08 on the real `des` crate: %d seeded random scenarios - 2..4 modules, one gate chain of 1..6 hops (gates g0..gk on random owners, also several on one module), each hop with or without a channel (latency 0.1..2 ms, bitrate 0 / 1 / 8 Mbit/s, jitter 0), hops connected in random order and orientation, one connected pair connected again; the forward walk from g0 must enumerate g0..gk and the backward walk from gk its mirror image; a gate with two peers must refuse a third (separate chain); the owner of g0 sends one message into g0 at 0 and the owner of gk one into gk at 1 s: each must be handled exactly once by the owner of the far end at send time + sum over the hops of (latency + size*8/bitrate) with sender id, receiver id and final gate in the header; every fifth chain has 9..14 hops; in every third scenario both ends send at time 0 (no bounce then): the two directions of a hop have independent channels" % count,
               "bound": "%d random scenarios; seed %d" % (count, seed), "labelled": "bounded", "counts_as_proof": False}
        exe, err = _build_rt(repo, "gate_driver")
        if exe is None:
            res.update({"status": "not_run", "reason": "driver does not build against this tree: " + err, "wall_s": round(time.time() - t0, 2)})
            return res
        try:
            p = subprocess.run([exe, "search", str(count), str(seed)], stdout=subprocess.PIPE, stderr=subprocess.PIPE, timeout=900)
        except subprocess.TimeoutExpired:
            res.update({"status": "mismatch", "mismatch": {"mismatch": True, "kind": "scenario-does-not-return", "props": "C08", "expected": "every scenario terminates", "observed": "no result within 900 s"}, "wall_s": round(time.time() - t0, 2)})
            return res
        line = (p.stdout.decode("utf8", "replace").strip().splitlines() or ["{}"])[-1]
        try:
            j = json.loads(line)
        except Exception:
            j = {}
        res["wall_s"] = round(time.time() - t0, 2)
        res["cmd"] = "gate_driver search %d %d   (built from replay/gate_driver against %s/des)" % (count, seed, repo)
        if j.get("mismatch"):
            res.update({"status": "mismatch", "mismatch": j})
        elif "scenarios" in j:
            res.update({"status": "no_mismatch", "scenarios": j["scenarios"], "sample": j.get("sample")})
        else:
            err = p.stderr.decode("utf8", "replace")
            pan = [l for l in err.splitlines() if "panicked at" in l and "gate_driver" not in l]
            if p.returncode == 101 and pan:
                res.update({"status": "mismatch", "mismatch": {"mismatch": True, "kind": "chain-walk-or-connect-panicked", "props": "C08", "expected": "chains built from admissible connect calls can be walked and carry messages", "observed": (pan[-1] + " " + err[err.rfind(pan[-1]) + len(pan[-1]):][:200]).replace('"', "'")}})
            else:
                res.update({"status": "not_run", "reason": "driver crashed: " + err[-300:]})
        return res
    finally:
        if repo != "/repo" and not os.environ.get("VERIF_KEEP_CACHE"):
            tag = hashlib.sha1(repo.encode()).hexdigest()[:8]
            shutil.rmtree(os.path.join(WORK_BASE, "gate_driver-" + tag), ignore_errors=True)
            shutil.rmtree(os.path.join(WORK_BASE, "des-drivers-target-" + tag), ignore_errors=True)
        fcntl.flock(lockf, fcntl.LOCK_UN)
        lockf.close()


def shutdown_search(repo, prop, tier, seed=1):
    """C09 bounded replay (replay/shutdown_driver): shutdown / restart scenarios on the real `des` crate."""
    t0 = time.time()
    os.makedirs(WORK_BASE, exist_ok=True)
    lockf = open(os.path.join(WORK_BASE, "rt_driver.lock"), "w")
    fcntl.flock(lockf, fcntl.LOCK_EX)
    try:
        count = 300000 if tier == "thorough" else 20000
        res = {"what": "bounded replay of C09 on the real `des` crate: %d seeded random scenarios - module a (1..3 start-up stages, a task ticking every 10/20/30 ms for 1..6 ticks) asks at 11..81 ms for shutdown without restart or with restart after 0..60 ms (0 = at the requesting instant; half of the requests through shutdow_and_restart_at with an absolute time); in a quarter of the scenarios the restarted module asks for another shutdown + restart (10..40 ms) from its start-up stage 0: all its stages still run, it is reset once more and its third incarnation starts on time; module b sends it 0..4 messages, sends 0..4 messages to module c through two transit gates of a, 0..4 over a direct link, and ticks itself. Expected and compared event for event (module, what, time): start-up stages at 0 and once more at exactly the restart time, ticks of the first task only before the shutdown and of the task spawned by the restart afterwards, reset exactly once at the shutdown time, messages to a and through a's gates handled iff a is up when they arrive (dropped ones never show up later), b's ticks and the direct link unaffected; reset runs in a's own context, a message a sends in the requesting event and the one it sends in start-up stage 0 (also on restart) reach c; run() returns Ok" % count,
               "bound": "%d random scenarios; seed %d" % (count, seed), "labelled": "bounded", "counts_as_proof": False}
        exe, err = _build_rt(repo, "shutdown_driver")
        if exe is None:
            res.update({"status": "not_run", "reason": "driver does not build against this tree: " + err, "wall_s": round(time.time() - t0, 2)})
            return res
        try:
            p = subprocess.run([exe, "search", str(count), str(seed)], stdout=subprocess.PIPE, stderr=subprocess.PIPE, timeout=900)
        except subprocess.TimeoutExpired:
            res.update({"status": "mismatch", "mismatch": {"mismatch": True, "kind": "scenario-does-not-return", "props": "C09", "expected": "every scenario terminates", "observed": "no result within 900 s"}, "wall_s": round(time.time() - t0, 2)})
            return res
        line = (p.stdout.decode("utf8", "replace").strip().splitlines() or ["{}"])[-1]
        try:
            j = json.loads(line)
        except Exception:
            j = {}
        res["wall_s"] = round(time.time() - t0, 2)
        res["cmd"] = "shutdown_driver search %d %d   (built from replay/shutdown_driver against %s/des)" % (count, seed, repo)
        if j.get("mismatch"):
            res.update({"status": "mismatch", "mismatch": j})
        elif "scenarios" in j:
            res.update({"status": "no_mismatch", "scenarios": j["scenarios"], "sample": j.get("sample")})
        else:
            res.update({"status": "not_run", "reason": "driver crashed: " + p.stderr.decode("utf8", "replace")[-300:]})
        return res
    finally:
        if repo != "/repo" and not os.environ.get("VERIF_KEEP_CACHE"):
            tag = hashlib.sha1(repo.encode()).hexdigest()[:8]
            shutil.rmtree(os.path.join(WORK_BASE, "shutdown_driver-" + tag), ignore_errors=True)
            shutil.rmtree(os.path.join(WORK_BASE, "des-drivers-target-" + tag), ignore_errors=True)
        fcntl.flock(lockf, fcntl.LOCK_UN)
        lockf.close()


def panic_search(repo, prop, tier, seed=1):
    """C13 bounded replay (replay/panic_driver): a module that panics at a chosen point, on the real `des` crate."""
    t0 = time.time()
    os.makedirs(WORK_BASE, exist_ok=True)
    lockf = open(os.path.join(WORK_BASE, "rt_driver.lock"), "w")
    fcntl.flock(lockf, fcntl.LOCK_EX)
    try:
        count = 200000 if tier == "thorough" else 10000
        res = {"what": "bounded replay of C13 on the real `des` crate: %d seeded random scenarios - module f (1..3 start-up stages, a ticking task, echoes every message it gets from g) panics in a start-up stage, at its 1st..4th message, in its tear-down, or never, with or without a stereotype that catches panics; g also feeds h over a direct link and h ticks. Compared event for event (module, what, time): f's stages / messages / ticks up to the panic and none afterwards during the run, g's echoes only for messages f handled, h completely undisturbed, g and h torn down exactly once; run() must return (never unwind) and list exactly 'module f panicked' iff an uncaught panic happened (also for a module that shut itself down earlier and panics in its tear-down; followed by 'module g panicked' when g panics in its tear-down as well); what f sent in the panicking event before the panic still arrives; after every scenario a plain second simulation must behave normally in the same process" % count,
               "bound": "%d random scenarios (each followed by a control simulation); seed %d" % (count, seed), "labelled": "bounded", "counts_as_proof": False}
        exe, err = _build_rt(repo, "panic_driver")
        if exe is None:
            res.update({"status": "not_run", "reason": "driver does not build against this tree: " + err, "wall_s": round(time.time() - t0, 2)})
            return res
        try:
            p = subprocess.run([exe, "search", str(count), str(seed)], stdout=subprocess.PIPE, stderr=subprocess.PIPE, timeout=900)
        except subprocess.TimeoutExpired:
            res.update({"status": "mismatch", "mismatch": {"mismatch": True, "kind": "scenario-does-not-return", "props": "C13", "expected": "every scenario terminates", "observed": "no result within 900 s"}, "wall_s": round(time.time() - t0, 2)})
            return res
        line = (p.stdout.decode("utf8", "replace").strip().splitlines() or ["{}"])[-1]
        try:
            j = json.loads(line)
        except Exception:
            j = {}
        res["wall_s"] = round(time.time() - t0, 2)
        res["cmd"] = "panic_driver search %d %d   (built from replay/panic_driver against %s/des)" % (count, seed, repo)
        if j.get("mismatch"):
            res.update({"status": "mismatch", "mismatch": j})
        elif "scenarios" in j:
            res.update({"status": "no_mismatch", "scenarios": j["scenarios"], "sample": j.get("sample")})
        elif p.returncode != 0:
            res.update({"status": "mismatch", "mismatch": {"mismatch": True, "kind": "simulator-aborted", "props": "C13", "expected": "a module panic never aborts the simulator", "observed": ("the driver process ended with status %d: " % p.returncode + p.stderr.decode("utf8", "replace")[-300:]).replace('"', "'")}})
        else:
            res.update({"status": "not_run", "reason": "driver crashed: " + p.stderr.decode("utf8", "replace")[-300:]})
        return res
    finally:
        if repo != "/repo" and not os.environ.get("VERIF_KEEP_CACHE"):
            tag = hashlib.sha1(repo.encode()).hexdigest()[:8]
            shutil.rmtree(os.path.join(WORK_BASE, "panic_driver-" + tag), ignore_errors=True)
            shutil.rmtree(os.path.join(WORK_BASE, "des-drivers-target-" + tag), ignore_errors=True)
        fcntl.flock(lockf, fcntl.LOCK_UN)
        lockf.close()


def cfg_search(repo, prop, tier, seed=1):
    """C17 bounded replay (replay/cfg_driver): random flat dotted-key configurations and module paths on the real des-net-utils crate."""
    t0 = time.time()
    os.makedirs(WORK_BASE, exist_ok=True)
    lockf = open(os.path.join(WORK_BASE, "rt_driver.lock"), "w")
    fcntl.flock(lockf, fcntl.LOCK_EX)
    try:
        count = 2000000 if tier == "thorough" else 100000
        res = {"what": "bounded replay of C17 on the real `des-net-utils` crate (Cfg::new = compartmentalize, Cfg::capture_for = Props::update_from, Props::set / keys / get_raw): %d seeded random scenarios: a module path of depth 1..4 over the names a, ab, abc, b, bob, n, n\u00e9, x1 (siblings that are textual prefixes of each other, one non-ASCII), a flat configuration of 1..7 entries whose keys are derived from the path (same depth or off by one; every segment kept, replaced by a sibling name or by <any>) followed by one of the property names x, y, addr, x.y, b; in every third scenario a second configuration is captured into the same Props afterwards; in every fifth the module wrote a typed (i64) property of one of the names BEFORE the configuration arrived (it must keep value and type: reading it as String stays an error); entries up to two levels deeper than the module (compartments of wildcard entries for its descendants). The keys and values the module ends up with are compared with the property statement read literally (key = path, each segment literal or <any>, then the name): no foreign name, every addressed name present, the value that of some addressing entry, no panic" % count,
               "bound": "%d random scenarios; seed %d" % (count, seed), "labelled": "bounded", "counts_as_proof": False}
        exe, err = _build_rt(repo, "cfg_driver")
        if exe is None:
            res.update({"status": "not_run", "reason": "driver does not build against this tree: " + err, "wall_s": round(time.time() - t0, 2)})
            return res
        try:
            p = subprocess.run([exe, "search", str(count), str(seed)], stdout=subprocess.PIPE, stderr=subprocess.PIPE, timeout=900)
        except subprocess.TimeoutExpired:
            res.update({"status": "mismatch", "mismatch": {"mismatch": True, "kind": "capture-does-not-return", "props": "C17", "expected": "every scenario terminates", "observed": "no result within 900 s"}, "wall_s": round(time.time() - t0, 2)})
            return res
        line = (p.stdout.decode("utf8", "replace").strip().splitlines() or ["{}"])[-1]
        try:
            j = json.loads(line)
        except Exception:
            j = {}
        res["wall_s"] = round(time.time() - t0, 2)
        res["cmd"] = "cfg_driver search %d %d   (built from replay/cfg_driver against %s/des-net-utils)" % (count, seed, repo)
        if j.get("mismatch"):
            j["scenario"] = {"cfg_scenario": j.get("scenario")}
            res.update({"status": "mismatch", "mismatch": j})
        elif "scenarios" in j:
            res.update({"status": "no_mismatch", "scenarios": j["scenarios"], "sample": j.get("sample")})
        else:
            res.update({"status": "not_run", "reason": "driver crashed: " + p.stderr.decode("utf8", "replace")[-300:]})
        return res
    finally:
        if repo != "/repo" and not os.environ.get("VERIF_KEEP_CACHE"):
            tag = hashlib.sha1(repo.encode()).hexdigest()[:8]
            shutil.rmtree(os.path.join(WORK_BASE, "cfg_driver-" + tag), ignore_errors=True)
            shutil.rmtree(os.path.join(WORK_BASE, "des-drivers-target-" + tag), ignore_errors=True)
        fcntl.flock(lockf, fcntl.LOCK_UN)
        lockf.close()


def cfg_replay(repo, scenario_json):
    exe, err = _build_rt(repo, "cfg_driver")
    if exe is None:
        return "not run: " + err
    p = subprocess.run([exe, "replay", scenario_json], stdout=subprocess.PIPE, stderr=subprocess.PIPE, timeout=60)
    return p.stdout.decode("utf8", "replace").strip()


def ndl_search(repo, prop, tier, seed=1):
    """C18 bounded replay (replay/ndl_driver): generated network descriptions and single-point mutations on the real des-net-utils crate: never a panic."""
    t0 = time.time()
    os.makedirs(WORK_BASE, exist_ok=True)
    lockf = open(os.path.join(WORK_BASE, "rt_driver.lock"), "w")
    fcntl.flock(lockf, fcntl.LOCK_EX)
    try:
        count = 1000000 if tier == "thorough" else 40000
        res = {"what": "bounded replay of the totality half of C18 on the real `des-net-utils` crate: %d seeded descriptions generated from one NDL template (an interface, leaf types with gates and a gate cluster, inheritance, a generic type with one bound, a composite with two submodule clusters of size 2..4, cluster-to-cluster / indexed / atom connections, a link, an entry type using the generic type with a conforming argument) of which three quarters carry ONE mutation out of 30 (a generic binding used with arguments / as a type argument / as parent inside a generic type, empty connection endpoints, closing bracket without opening bracket in a gate and in a submodule name, unknown type / gate / link / entry / inherit / bound, index out of bounds on a submodule cluster and on a gate cluster, zero-sized and non-numeric cluster, unequal cluster sizes, dependency cycle, type clause without closing parenthesis in a submodule type and in a module head, malformed generic argument, duplicate generic binding, generic / non-conforming / unknown / missing / surplus / badly separated type arguments). Each text is parsed (serde_yml -> ndl::def::Def) and elaborated (ndl::transform) under catch_unwind: a panic is a mismatch; a mutated description must be answered with an error; an unmutated description must elaborate to the network the template denotes (the template also has a child inheriting connections and a gate cluster connected to a path crossing two clusters; submodules, gates and expanded connections with pairing and link parameters are compared). NOT examined: the simulation built from the network; descriptions outside this template" % count,
               "bound": "%d random descriptions; seed %d" % (count, seed), "labelled": "bounded", "counts_as_proof": False}
        exe, err = _build_rt(repo, "ndl_driver")
        if exe is None:
            res.update({"status": "not_run", "reason": "driver does not build against this tree: " + err, "wall_s": round(time.time() - t0, 2)})
            return res
        try:
            p = subprocess.run([exe, "search", str(count), str(seed)], stdout=subprocess.PIPE, stderr=subprocess.PIPE, timeout=900)
        except subprocess.TimeoutExpired:
            res.update({"status": "mismatch", "mismatch": {"mismatch": True, "kind": "ndl-does-not-return", "props": "C18", "expected": "every description is answered", "observed": "no result within 900 s"}, "wall_s": round(time.time() - t0, 2)})
            return res
        line = (p.stdout.decode("utf8", "replace").strip().splitlines() or ["{}"])[-1]
        try:
            j = json.loads(line)
        except Exception:
            j = {}
        res["wall_s"] = round(time.time() - t0, 2)
        res["cmd"] = "ndl_driver search %d %d   (built from replay/ndl_driver against %s/des-net-utils)" % (count, seed, repo)
        if j.get("mismatch"):
            res.update({"status": "mismatch", "mismatch": j})
        elif "scenarios" in j:
            res.update({"status": "no_mismatch", "scenarios": j["scenarios"], "sample": j.get("sample")})
        else:
            res.update({"status": "not_run", "reason": "driver crashed: " + p.stderr.decode("utf8", "replace")[-300:]})
        return res
    finally:
        if repo != "/repo" and not os.environ.get("VERIF_KEEP_CACHE"):
            tag = hashlib.sha1(repo.encode()).hexdigest()[:8]
            shutil.rmtree(os.path.join(WORK_BASE, "ndl_driver-" + tag), ignore_errors=True)
            shutil.rmtree(os.path.join(WORK_BASE, "des-drivers-target-" + tag), ignore_errors=True)
        fcntl.flock(lockf, fcntl.LOCK_UN)
        lockf.close()


def ndl_replay(repo, text, mutation=None, n=None, has_y=None):
    exe, err = _build_rt(repo, "ndl_driver")
    if exe is None:
        return "not run: " + err
    import tempfile
    with tempfile.NamedTemporaryFile("w", suffix=".yml", delete=False, dir=WORK_BASE) as f:
        f.write(text)
        name = f.name
    try:
        extra = [str(n), "true" if has_y else "false"] if (mutation == "none" and n is not None) else []
        p = subprocess.run([exe, "replay", name] + extra, stdout=subprocess.PIPE, stderr=subprocess.PIPE, timeout=60)
        return p.stdout.decode("utf8", "replace").strip()
    finally:
        os.unlink(name)


def cfgsim_search(repo, prop, tier, seed=1):
    """C17 bounded replay at the level of the simulation builder (replay/cfgsim_driver): nodes and include_cfg calls interleaved."""
    t0 = time.time()
    os.makedirs(WORK_BASE, exist_ok=True)
    lockf = open(os.path.join(WORK_BASE, "rt_driver.lock"), "w")
    fcntl.flock(lockf, fcntl.LOCK_EX)
    try:
        count = 300000 if tier == "thorough" else 15000
        res = {"what": "bounded replay of C17 on the real `des` crate: %d seeded random scenarios: 1..7 nodes (depth 1..3, names a, ab, b, bob, n, x1) and 1..2 flat configurations (1..5 entries addressed to one of the nodes, segments replaced by a sibling name or <any>, names x, y, addr, x.y) added to a Sim in a random interleaving of Sim::node and Sim::include_cfg; every module reports props_keys() and the raw values at start-up; compared per module with the property statement read literally, whatever the order of inclusion and node creation" % count,
               "bound": "%d random scenarios; seed %d" % (count, seed), "labelled": "bounded", "counts_as_proof": False}
        exe, err = _build_rt(repo, "cfgsim_driver")
        if exe is None:
            res.update({"status": "not_run", "reason": "driver does not build against this tree: " + err, "wall_s": round(time.time() - t0, 2)})
            return res
        try:
            p = subprocess.run([exe, "search", str(count), str(seed)], stdout=subprocess.PIPE, stderr=subprocess.PIPE, timeout=900)
        except subprocess.TimeoutExpired:
            res.update({"status": "mismatch", "mismatch": {"mismatch": True, "kind": "cfgsim-does-not-return", "props": "C17", "expected": "every scenario terminates", "observed": "no result within 900 s"}, "wall_s": round(time.time() - t0, 2)})
            return res
        line = (p.stdout.decode("utf8", "replace").strip().splitlines() or ["{}"])[-1]
        try:
            j = json.loads(line)
        except Exception:
            j = {}
        res["wall_s"] = round(time.time() - t0, 2)
        res["cmd"] = "cfgsim_driver search %d %d   (built from replay/cfgsim_driver against %s/des)" % (count, seed, repo)
        if j.get("mismatch"):
            res.update({"status": "mismatch", "mismatch": j})
        elif "scenarios" in j:
            res.update({"status": "no_mismatch", "scenarios": j["scenarios"], "sample": j.get("sample")})
        else:
            res.update({"status": "not_run", "reason": "driver crashed: " + p.stderr.decode("utf8", "replace")[-300:]})
        return res
    finally:
        if repo != "/repo" and not os.environ.get("VERIF_KEEP_CACHE"):
            tag = hashlib.sha1(repo.encode()).hexdigest()[:8]
            shutil.rmtree(os.path.join(WORK_BASE, "cfgsim_driver-" + tag), ignore_errors=True)
            shutil.rmtree(os.path.join(WORK_BASE, "des-drivers-target-" + tag), ignore_errors=True)
        fcntl.flock(lockf, fcntl.LOCK_UN)
        lockf.close()


def ndlsim_search(repo, prop, tier, seed=1):
    """C18 bounded replay, second sentence (replay/ndlsim_driver): unmutated template descriptions built into a simulation on the real des crate."""
    t0 = time.time()
    os.makedirs(WORK_BASE, exist_ok=True)
    lockf = open(os.path.join(WORK_BASE, "rt_driver.lock"), "w")
    fcntl.flock(lockf, fcntl.LOCK_EX)
    try:
        count = 20000 if tier == "thorough" else 400
        res = {"what": "bounded replay of the second sentence of C18 on the real `des` crate: %d unmutated descriptions from the template of replay/ndl_driver (random cluster sizes 2..4, optional y[2] cluster) are parsed and built with SimBuilder::nodes_from_ndl (default fallback registry); compared with what the template denotes: the set of module paths (root, clusters expanded: mid.a[i], mid.b[i], y[k], nested g.c, q.s) and the gate chains as the topology view reports them (one edge per direction between the owners of the two ends of a chain, labelled with the end gates): the self connection of x, a[i].port - b[i].port, wide[k] - a[k/3].in[k%%3], the inherited pg - s.port, and the five-gate chain wide[1] - a[0].in[1] - mid.up - g.up - g.c.port that crosses three modules and the concrete replacement of the generic parameter. NOT examined: link parameters of the built channels, registered software, other templates" % count,
               "bound": "%d descriptions; seed %d" % (count, seed), "labelled": "bounded", "counts_as_proof": False}
        exe, err = _build_rt(repo, "ndlsim_driver")
        if exe is None:
            res.update({"status": "not_run", "reason": "driver does not build against this tree: " + err, "wall_s": round(time.time() - t0, 2)})
            return res
        try:
            p = subprocess.run([exe, "search", str(count), str(seed)], stdout=subprocess.PIPE, stderr=subprocess.PIPE, timeout=900)
        except subprocess.TimeoutExpired:
            res.update({"status": "mismatch", "mismatch": {"mismatch": True, "kind": "ndl-build-does-not-return", "props": "C18", "expected": "every description is built", "observed": "no result within 900 s"}, "wall_s": round(time.time() - t0, 2)})
            return res
        line = (p.stdout.decode("utf8", "replace").strip().splitlines() or ["{}"])[-1]
        try:
            j = json.loads(line)
        except Exception:
            j = {}
        res["wall_s"] = round(time.time() - t0, 2)
        res["cmd"] = "ndlsim_driver search %d %d   (built from replay/ndlsim_driver against %s/des)" % (count, seed, repo)
        if j.get("mismatch"):
            res.update({"status": "mismatch", "mismatch": j})
        elif "scenarios" in j:
            res.update({"status": "no_mismatch", "scenarios": j["scenarios"], "sample": j.get("sample")})
        else:
            res.update({"status": "not_run", "reason": "driver crashed: " + p.stderr.decode("utf8", "replace")[-300:]})
        return res
    finally:
        if repo != "/repo" and not os.environ.get("VERIF_KEEP_CACHE"):
            tag = hashlib.sha1(repo.encode()).hexdigest()[:8]
            shutil.rmtree(os.path.join(WORK_BASE, "ndlsim_driver-" + tag), ignore_errors=True)
            shutil.rmtree(os.path.join(WORK_BASE, "des-drivers-target-" + tag), ignore_errors=True)
        fcntl.flock(lockf, fcntl.LOCK_UN)
        lockf.close()


def msg_search(repo, prop, tier, seed=1):
    """C16 bounded replay at the level of des::net::message::Message (replay/msg_driver)."""
    t0 = time.time()
    os.makedirs(WORK_BASE, exist_ok=True)
    lockf = open(os.path.join(WORK_BASE, "rt_driver.lock"), "w")
    fcntl.flock(lockf, fcntl.LOCK_EX)
    try:
        count = 5000000 if tier == "thorough" else 200000
        res = {"what": "bounded replay of C16 on the real `des` crate at the level of Message: %d seeded random scripts of 2..9 operations on a growing set of messages - set_content with the same type again or another type (u32, u64, String of 0..39 bytes, Vec<u8> of 0..299 bytes, (), a clonable token type that counts its drops, a non-clonable type), a write through try_content_mut, try_clone, try_cast to a non-matching type (must fail and leave the message intact), try_cast to the stored type (the value comes out), drop. After every operation: the message is readable as exactly its stored type with the stored value, length() = 64 + declared byte length, the number of live tokens equals the number of messages holding one; at the end all are dropped exactly once" % count,
               "bound": "%d random scripts; seed %d" % (count, seed), "labelled": "bounded", "counts_as_proof": False}
        exe, err = _build_rt(repo, "msg_driver")
        if exe is None:
            res.update({"status": "not_run", "reason": "driver does not build against this tree: " + err, "wall_s": round(time.time() - t0, 2)})
            return res
        try:
            p = subprocess.run([exe, "search", str(count), str(seed)], stdout=subprocess.PIPE, stderr=subprocess.PIPE, timeout=900)
        except subprocess.TimeoutExpired:
            res.update({"status": "not_run", "reason": "time limit", "wall_s": round(time.time() - t0, 2)})
            return res
        line = (p.stdout.decode("utf8", "replace").strip().splitlines() or ["{}"])[-1]
        try:
            j = json.loads(line)
        except Exception:
            j = {}
        res["wall_s"] = round(time.time() - t0, 2)
        res["cmd"] = "msg_driver search %d %d   (built from replay/msg_driver against %s/des)" % (count, seed, repo)
        if j.get("mismatch"):
            res.update({"status": "mismatch", "mismatch": j})
        elif "scenarios" in j:
            res.update({"status": "no_mismatch", "scenarios": j["scenarios"], "sample": j.get("sample")})
        else:
            res.update({"status": "not_run", "reason": "driver crashed: " + p.stderr.decode("utf8", "replace")[-300:]})
        return res
    finally:
        if repo != "/repo" and not os.environ.get("VERIF_KEEP_CACHE"):
            tag = hashlib.sha1(repo.encode()).hexdigest()[:8]
            shutil.rmtree(os.path.join(WORK_BASE, "msg_driver-" + tag), ignore_errors=True)
            shutil.rmtree(os.path.join(WORK_BASE, "des-drivers-target-" + tag), ignore_errors=True)
        fcntl.flock(lockf, fcntl.LOCK_UN)
        lockf.close()
