#!/bin/bash
# usage: tools/mut.sh <prop> <file-rel> <sed-expr>   — apply a sed edit to a scratch copy of the file and run the check
P=$1; F=$2; S=$3
M=/var/tmp/mrepo.$$; mkdir -p $M/$(dirname $F)
for f in des-cqueue/src/stable/mod.rs des/src/runtime/mod.rs des/src/runtime/limit.rs des/src/runtime/event/event_set.rs des/src/runtime/builder.rs des/src/net/processing.rs des/src/net/channel.rs des/src/net/runtime/mod.rs des/src/net/message/mod.rs des/src/net/message/header.rs des/src/net/message/body.rs des/src/time/mod.rs des/src/time/duration.rs des/src/macros/cfg.rs des/src/runtime/bench.rs des/src/runtime/event/types.rs des-cqueue/src/stable/linked_list.rs des-cqueue/src/stable/alloc.rs des/src/net/path.rs; do mkdir -p $M/$(dirname $f); cp /repo/$f $M/$f; done
sed -i "$S" $M/$F
if diff -q /repo/$F $M/$F >/dev/null; then echo "MUTATION DID NOT APPLY"; rm -rf $M; exit 3; fi
diff /repo/$F $M/$F | head -6
VERIF_NO_EVIDENCE=1 VERIF_REPO=$M /verif/check $P | grep -v "^NOTE" | tail -6; echo "rc=${PIPESTATUS[0]}"
rm -rf $M
