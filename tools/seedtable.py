#!/usr/bin/env python3
"""Print the markdown table of DESIGN.md §10 from seeded/*/meta.json (run after tools/seedrecheck.py)."""
import os, json, re
ROOT = "/verif"
rows = []
caught = missed = und = 0
for sid in sorted(os.listdir(os.path.join(ROOT, "seeded"))):
    if sid.startswith("neutral-"):
        continue
    mp = os.path.join(ROOT, "seeded", sid, "meta.json")
    if not os.path.exists(mp):
        continue
    m = json.load(open(mp))
    prop = (m.get("property") or sid.split("-")[0]).split()[0].strip(",")
    r = (m.get("checks_run") or {}).get(prop) or {}
    rc = r.get("exit")
    lines = r.get("lines") or []
    if rc is None:
        rc = 1 if any("VIOLATION" in l for l in lines) else (2 if any("UNDECIDED" in l for l in lines) else 0)
    concrete = any(l.startswith("VIOLATION") and not l.rstrip().endswith("no-failing-input-found") for l in lines)
    first = next((l.strip()[len("failed obligation: "):] for l in lines if l.strip().startswith("failed obligation")), "")
    first = re.sub(r"\s+", " ", first)[:95].replace("|", "/")
    if rc == 1:
        caught += 1
        st = "**caught**" + (" + concrete replay" if concrete else "")
    elif rc == 2:
        und += 1
        st = "undecided (exit 2)"
    else:
        missed += 1
        st = "missed (exit 0)"
    rows.append("| %s | %s | %s | %s |" % (sid, (m.get("summary") or "")[:105].replace("|", "/"), st, first))
print("TOTAL %d seeds: %d caught, %d missed, %d undecided" % (len(rows), caught, missed, und))
print("| seed | change (from the agent's summary) | quick check of its property | first failed obligation |")
print("|---|---|---|---|")
print("\n".join(rows))
