#!/bin/bash
# dev helper: extract + verify one unit, print errors compactly
# usage: tools/dev.sh <unit> [extra verus args]
set -u
U=$1; shift
W=/var/tmp/vxw/$U; mkdir -p $W
/verif/tools/vx/target/debug/vx /verif/units/$U.vrs --repo ${REPO:-/repo} --out $W/gen.rs --report $W/rep.json || exit 2
cd $W && verus gen.rs --triggers-mode silent "$@" 2>&1 | grep -v '^$' | head -${LINES_MAX:-120}
