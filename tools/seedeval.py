#!/usr/bin/env python3
"""Confirm a seeded change produced by a sub-agent and run the checks against it.
usage: tools/seedeval.py <worktree> <mutation-dir-name> <seed-id> <prop> [<prop> ...]
 1. in the scratch worktree: apply patch -> existing tests pass, demo fails; revert -> demo passes
 2. apply the patch to /repo, run ./check <prop> for every given property, undo (git checkout -- .)
 3. store patch, demo, meta under /verif/seeded/<seed-id>/
"""
import sys, os, json, subprocess, shutil, time
wt, mdir, sid = sys.argv[1:4]
props = sys.argv[4:]
ROOT = "/verif"
src = os.path.join(wt, "out", mdir)
meta = json.load(open(os.path.join(src, "meta.json")))
patch = os.path.join(src, "patch.diff")
demo = os.path.join(src, "demo.rs")
loc = meta.get("demo_location", "des/tests/demo.rs")
crate = "des-cqueue" if loc.startswith("des-cqueue") else "des"
testname = "zz_seed_demo"
dst_demo = os.path.join(wt, crate, "tests", testname + ".rs")

def sh(cmd, cwd=None, timeout=3000):
    p = subprocess.run(cmd, cwd=cwd, shell=True, stdout=subprocess.PIPE, stderr=subprocess.STDOUT, timeout=timeout)
    return p.returncode, p.stdout.decode("utf8", "replace")

log = {}
sh("git checkout -- .", wt)
rc, out = sh("git apply %s" % patch, wt)
assert rc == 0, out
rc, out = sh("cargo test -p des -p des-cqueue --offline 2>&1 | grep -E 'test result|FAILED|failed' | head -60", wt)
log["existing_tests_with_change"] = out
existing_ok = "FAILED" not in out and "failed;" in out and all(" 0 failed" in l for l in out.splitlines() if "test result" in l)
made_dir = not os.path.isdir(os.path.dirname(dst_demo))
os.makedirs(os.path.dirname(dst_demo), exist_ok=True)
shutil.copy(demo, dst_demo)
rc, out = sh("cargo test -p %s --offline --test %s 2>&1 | tail -15" % (crate, testname), wt)
log["demo_with_change"] = out
demo_fails = "test result: FAILED" in out or "error: test failed" in out
sh("git checkout -- .", wt)
rc, out = sh("cargo test -p %s --offline --test %s 2>&1 | tail -8" % (crate, testname), wt)
log["demo_without_change"] = out
demo_passes = "test result: ok" in out
os.remove(dst_demo)
if made_dir:
    os.rmdir(os.path.dirname(dst_demo))
sh("git checkout -- .", wt)
print("confirm: existing_tests_pass=%s demo_fails_with=%s demo_passes_without=%s" % (existing_ok, demo_fails, demo_passes))

results = {}
rc, out = sh("git -C /repo status --porcelain")
assert out.strip() == "", "/repo not clean: " + out
rc, out = sh("git -C /repo apply %s" % patch)
assert rc == 0, out
try:
    for p in props:
        rc, out = sh("VERIF_NO_EVIDENCE=1 ./check %s" % p, ROOT)
        lines = [l for l in out.splitlines() if l.startswith(("VIOLATION", "UNDECIDED", "OK", "KNOWN", "  failed"))]
        results[p] = {"exit": rc, "lines": lines[:12]}
        print(p, "exit", rc, "|", " || ".join(lines[:4])[:400])
finally:
    sh("git -C /repo checkout -- .")
    rc, out = sh("git -C /repo status --porcelain")
    assert out.strip() == "", "/repo not restored: " + out

keep = existing_ok and demo_fails and demo_passes
if keep:
    d = os.path.join(ROOT, "seeded", sid)
    os.makedirs(d, exist_ok=True)
    shutil.copy(patch, os.path.join(d, "patch.diff"))
    shutil.copy(demo, os.path.join(d, "demo.rs"))
    m = {"property": meta.get("property"), "summary": meta.get("summary"), "needs": meta.get("needs"), "files_changed": meta.get("files_changed"),
         "demo_location": loc, "confirmed": {"existing_tests_pass_with_change": existing_ok, "demo_fails_with_change": demo_fails, "demo_passes_without_change": demo_passes,
         "commands": ["git apply patch.diff", "cargo test -p des -p des-cqueue --offline", "cargo test -p %s --offline --test %s (with / without the change)" % (crate, testname)]},
         "checks_run": results, "detected_by": [p for p, r in results.items() if r["exit"] == 1], "at": time.strftime("%Y-%m-%d %H:%M:%S")}
    json.dump(m, open(os.path.join(d, "meta.json"), "w"), indent=1)
    print("kept as seeded/%s detected_by=%s" % (sid, m["detected_by"]))
else:
    print("NOT kept (confirmation failed)")
    print(json.dumps(log, indent=1)[:3000])
