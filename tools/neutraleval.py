#!/usr/bin/env python3
"""Run the checks against behaviour-preserving refactorings (must not alarm). usage: tools/neutraleval.py <worktree> <prefix> <props...>"""
import sys, os, json, subprocess, shutil, time
wt, prefix = sys.argv[1:3]
props = sys.argv[3:]
def sh(cmd, cwd=None):
    p = subprocess.run(cmd, cwd=cwd, shell=True, stdout=subprocess.PIPE, stderr=subprocess.STDOUT)
    return p.returncode, p.stdout.decode("utf8", "replace")
for n in sorted(os.listdir(os.path.join(wt, "out"))):
    d = os.path.join(wt, "out", n)
    if not os.path.exists(os.path.join(d, "patch.diff")):
        continue
    meta = json.load(open(os.path.join(d, "meta.json"))) if os.path.exists(os.path.join(d, "meta.json")) else {}
    rc, out = sh("git -C /repo status --porcelain"); assert out.strip() == "", out
    rc, out = sh("git -C /repo apply %s" % os.path.join(d, "patch.diff"))
    if rc != 0:
        print(n, "patch does not apply"); continue
    res = {}
    try:
        for p in props:
            rc, out = sh("VERIF_NO_EVIDENCE=1 ./check %s" % p, "/verif")
            lines = [l for l in out.splitlines() if l.startswith(("VIOLATION", "UNDECIDED", "OK", "  failed"))]
            res[p] = {"exit": rc, "lines": lines[:4]}
    finally:
        sh("git -C /repo checkout -- .")
    dst = os.path.join("/verif/seeded", "neutral-%s-%s" % (prefix, n))
    os.makedirs(dst, exist_ok=True)
    shutil.copy(os.path.join(d, "patch.diff"), os.path.join(dst, "patch.diff"))
    json.dump({"kind": "behaviour-preserving refactoring (must not alarm)", "summary": meta.get("summary"), "style": meta.get("style"), "why_equivalent": meta.get("why_equivalent"),
               "files_changed": meta.get("files_changed"), "checks_run": res, "alarms": [p for p, r in res.items() if r["exit"] == 1], "undecided": [p for p, r in res.items() if r["exit"] == 2],
               "at": time.strftime("%Y-%m-%d %H:%M:%S")}, open(os.path.join(dst, "meta.json"), "w"), indent=1)
    print(n, (meta.get("summary") or "")[:70], "|", " ".join("%s=%d" % (p, r["exit"]) for p, r in res.items()), "|", " ".join(l.strip()[:110] for p, r in res.items() for l in r["lines"] if not l.startswith("OK"))[:330], flush=True)
