//! vx — mechanical extractor: real Rust items from /repo  +  overlay (contracts, invariants, ghost code)
//!      ->  one single-file Verus input.
//!
//! The executable token streams of the extracted items are copied verbatim from the source file
//! (byte ranges located with `syn`); the only changes are
//!   * insertions of overlay text, bracketed by `/*@+*/ … /*@-*/`
//!   * a closed list of logged rewrites, bracketed by `/*@R<n>{*/ … /*@R<n>}*/`
//! Both are listed in the JSON report so that an independent checker (the Python driver) can undo them
//! and compare with the source.
//!
//! usage: vx <overlay.vrs> --repo <dir> --out <gen.rs> --report <report.json>
//! exit:  0 ok, 2 lost anchor / item not found / parse problem (never "violation")

use proc_macro2::{Delimiter, TokenStream, TokenTree};
use std::collections::BTreeMap;
use std::fmt::Write as _;
use syn::spanned::Spanned;
use syn::visit::Visit;

// ------------------------------------------------------------------------------------------------
// overlay model

#[derive(Debug, Clone)]
struct Section {
    kind: String,      // sig entry exit before after inv body-begin body-end closure
    ord: usize,        // statement / closure ordinal (1-based), 0 if n/a
    snippet: String,   // «…» normalised token prefix expected at that statement
    arg: String,       // extra argument (closure result binder)
    text: String,
    line: usize,       // overlay line of first text line
}

#[derive(Debug, Clone, Default)]
struct FnDir {
    path: String,
    trusted: bool,
    props: Vec<String>,
    stmts: Option<usize>,
    ret: Option<String>,
    sections: Vec<Section>,
    line: usize,
}

#[derive(Debug, Clone)]
enum Dir {
    Top(String, usize),
    Text(String, usize),
    Source(String),
    Item { path: String, line: usize, extra: Vec<Section> },
    Fn(FnDir),
    Rule(String, usize),
    Watch(String, usize),
}

fn die(code: i32, msg: &str) -> ! {
    println!("{}", msg);
    eprintln!("{}", msg);
    std::process::exit(code)
}

fn parse_overlay(src: &str, fname: &str) -> (String, Vec<Dir>) {
    let mut unit = String::from("unit");
    let mut dirs: Vec<Dir> = vec![];
    let lines: Vec<&str> = src.lines().collect();
    let mut i = 0;
    while i < lines.len() {
        let l = lines[i];
        if !l.starts_with("@@") {
            if l.trim().is_empty() || l.starts_with("#!") {
                i += 1;
                continue;
            }
            die(2, &format!("OVERLAY-SYNTAX {}:{}: text outside a directive: {}", fname, i + 1, l));
        }
        let mut it = l[2..].splitn(2, char::is_whitespace);
        let head = it.next().unwrap_or("");
        let rest = it.next().unwrap_or("").trim().to_string();
        match head {
            "unit" => {
                unit = rest;
                i += 1;
            }
            "top" | "text" => {
                let start = i + 1;
                let mut j = start;
                let mut buf = String::new();
                while j < lines.len() && lines[j].trim_end() != "@@end" {
                    buf.push_str(lines[j]);
                    buf.push('\n');
                    j += 1;
                }
                if j >= lines.len() {
                    die(2, &format!("OVERLAY-SYNTAX {}:{}: missing @@end", fname, i + 1));
                }
                if head == "top" {
                    dirs.push(Dir::Top(buf, start + 1));
                } else {
                    dirs.push(Dir::Text(buf, start + 1));
                }
                i = j + 1;
            }
            "source" => {
                dirs.push(Dir::Source(rest));
                i += 1;
            }
            "rule" => {
                dirs.push(Dir::Rule(rest, i + 1));
                i += 1;
            }
            "watch" => {
                dirs.push(Dir::Watch(rest, i + 1));
                i += 1;
            }
            "item" | "fn" => {
                let dline = i + 1;
                let mut parts = rest.split_whitespace();
                let path = parts.next().unwrap_or("").to_string();
                let flags: Vec<String> = parts.map(|s| s.to_string()).collect();
                let mut fd = FnDir { path: path.clone(), line: dline, ..Default::default() };
                fd.trusted = flags.iter().any(|f| f == "trusted");
                i += 1;
                // sections
                let mut cur: Option<Section> = None;
                while i < lines.len() && !lines[i].starts_with("@@") {
                    let l = lines[i];
                    if l.starts_with('@') {
                        if let Some(s) = cur.take() {
                            fd.sections.push(s);
                        }
                        let body = &l[1..];
                        let (headpart, snippet) = match body.find('«') {
                            Some(p) => {
                                let e = body.rfind('»').unwrap_or(body.len());
                                (body[..p].trim().to_string(), body[p + '«'.len_utf8()..e].trim().to_string())
                            }
                            None => (body.trim().to_string(), String::new()),
                        };
                        let mut w = headpart.split_whitespace();
                        let kind = w.next().unwrap_or("").to_string();
                        match kind.as_str() {
                            "props" => {
                                fd.props = w.map(|s| s.to_string()).collect();
                            }
                            "stmts" => {
                                fd.stmts = w.next().and_then(|s| s.parse().ok());
                            }
                            "ret" => {
                                fd.ret = Some(w.collect::<Vec<_>>().join(" "));
                            }
                            "table" => {
                                cur = Some(Section { kind, ord: 0, snippet, arg: String::new(), text: String::new(), line: i + 2 });
                            }
                            "sig" | "entry" | "exit" | "fields" | "attr" | "impl-begin" => {
                                cur = Some(Section { kind, ord: 0, snippet, arg: String::new(), text: String::new(), line: i + 2 });
                            }
                            "before" | "after" | "inv" | "body-begin" | "body-end" | "closure" | "iter" => {
                                let ord: usize = w.next().and_then(|s| s.parse().ok()).unwrap_or_else(|| {
                                    die(2, &format!("OVERLAY-SYNTAX {}:{}: ordinal expected", fname, i + 1))
                                });
                                let arg = w.collect::<Vec<_>>().join(" ");
                                cur = Some(Section { kind, ord, snippet, arg, text: String::new(), line: i + 2 });
                            }
                            _ => die(2, &format!("OVERLAY-SYNTAX {}:{}: unknown section @{}", fname, i + 1, kind)),
                        }
                    } else if let Some(s) = cur.as_mut() {
                        s.text.push_str(l);
                        s.text.push('\n');
                    } else if !l.trim().is_empty() {
                        die(2, &format!("OVERLAY-SYNTAX {}:{}: text before first section", fname, i + 1));
                    }
                    i += 1;
                }
                if let Some(s) = cur.take() {
                    fd.sections.push(s);
                }
                if head == "item" {
                    dirs.push(Dir::Item { path, line: dline, extra: fd.sections });
                } else {
                    dirs.push(Dir::Fn(fd));
                }
            }
            "end" => {
                i += 1;
            }
            _ => die(2, &format!("OVERLAY-SYNTAX {}:{}: unknown directive @@{}", fname, i + 1, head)),
        }
    }
    (unit, dirs)
}

// ------------------------------------------------------------------------------------------------
// source model

struct SrcFile {
    rel: String,
    text: String,
    line_starts: Vec<usize>,
    items: Vec<(Vec<String>, syn::Item)>, // (mod path, item) flattened, including items inside item-like macros
}

impl SrcFile {
    fn line_of(&self, byte: usize) -> usize {
        match self.line_starts.binary_search(&byte) {
            Ok(i) => i + 1,
            Err(i) => i,
        }
    }
}

fn collect_items(items: Vec<syn::Item>, path: &mut Vec<String>, out: &mut Vec<(Vec<String>, syn::Item)>) {
    for it in items {
        match &it {
            syn::Item::Mod(m) => {
                if let Some((_, inner)) = &m.content {
                    path.push(m.ident.to_string());
                    collect_items(inner.clone(), path, out);
                    path.pop();
                }
            }
            syn::Item::Macro(m) => {
                // item-like macro wrappers such as cfg_cqueue! { mod cqueue_impl { … } }
                if let Ok(f) = syn::parse2::<syn::File>(m.mac.tokens.clone()) {
                    if !f.items.is_empty() {
                        collect_items(f.items, path, out);
                        continue;
                    }
                }
            }
            _ => {}
        }
        out.push((path.clone(), it));
    }
}

fn load_source(repo: &str, rel: &str) -> SrcFile {
    let p = format!("{}/{}", repo, rel);
    let text = std::fs::read_to_string(&p).unwrap_or_else(|e| die(2, &format!("LOST-ANCHOR source file {} unreadable: {}", p, e)));
    let file = syn::parse_file(&text).unwrap_or_else(|e| die(2, &format!("PARSE-ERROR {}: {}", p, e)));
    let mut items = vec![];
    collect_items(file.items, &mut vec![], &mut items);
    let mut line_starts = vec![0usize];
    for (i, b) in text.bytes().enumerate() {
        if b == b'\n' {
            line_starts.push(i + 1);
        }
    }
    SrcFile { rel: rel.to_string(), text, line_starts, items }
}

fn item_ident(it: &syn::Item) -> Option<String> {
    Some(match it {
        syn::Item::Struct(s) => s.ident.to_string(),
        syn::Item::Enum(s) => s.ident.to_string(),
        syn::Item::Type(s) => s.ident.to_string(),
        syn::Item::Const(s) => s.ident.to_string(),
        syn::Item::Fn(s) => s.sig.ident.to_string(),
        syn::Item::Trait(s) => s.ident.to_string(),
        syn::Item::Static(s) => s.ident.to_string(),
        _ => return None,
    })
}

fn type_last_ident(t: &syn::Type) -> Option<String> {
    match t {
        syn::Type::Path(p) => p.path.segments.last().map(|s| s.ident.to_string()),
        syn::Type::Reference(r) => type_last_ident(&r.elem),
        _ => None,
    }
}

fn path_suffix_matches(modpath: &[String], want: &[&str]) -> bool {
    if want.len() > modpath.len() {
        return false;
    }
    let off = modpath.len() - want.len();
    modpath[off..].iter().zip(want.iter()).all(|(a, b)| a == b)
}

// ------------------------------------------------------------------------------------------------
// edits

#[derive(Debug, Clone)]
struct Edit {
    pos: usize,
    end: usize, // == pos for pure insertions
    text: String,
    rule: String,         // "" for overlay insertion
    kept: Vec<String>,    // verbatim source fragments kept inside a rewrite
    oline: usize,         // overlay line (insertions) or 0
    seq: usize,
}

fn norm_tokens(ts: TokenStream, out: &mut String) {
    for tt in ts {
        match tt {
            TokenTree::Group(g) => {
                let (o, c) = match g.delimiter() {
                    Delimiter::Parenthesis => ("(", ")"),
                    Delimiter::Brace => ("{", "}"),
                    Delimiter::Bracket => ("[", "]"),
                    Delimiter::None => ("", ""),
                };
                out.push_str(o);
                out.push(' ');
                norm_tokens(g.stream(), out);
                out.push_str(c);
                out.push(' ');
            }
            TokenTree::Punct(p) => {
                out.push(p.as_char());
                if p.spacing() == proc_macro2::Spacing::Alone {
                    out.push(' ');
                }
            }
            other => {
                out.push_str(&other.to_string());
                out.push(' ');
            }
        }
    }
}

fn norm_str(s: &str) -> String {
    match s.parse::<TokenStream>() {
        Ok(ts) => {
            let mut o = String::new();
            norm_tokens(ts, &mut o);
            o.trim().to_string()
        }
        Err(_) => s.split_whitespace().collect::<Vec<_>>().join(" "),
    }
}

struct StmtInfo {
    start: usize,
    end: usize,
    norm: String,
    depth: usize,
    for_expr: Option<usize>, // byte offset of the iterator expression of a `for` statement
    // loop info
    loop_body: Option<(usize, usize)>, // byte offset of '{' and of '}' of the loop body
}

struct ClosureInfo {
    body_start: usize,
    body_end: usize,
    has_ret: bool,
}

struct FnScan<'a> {
    depth: usize,
    block_counter: usize,
    src: &'a str,
    stmts: Vec<StmtInfo>,
    closures: Vec<ClosureInfo>,
    edits: Vec<Edit>,
    rules: &'a Rules,
    seq: usize,
}

#[derive(Default, Clone)]
struct Rules {
    assert: bool,
    panic: bool,
    quiet_print: bool,
    position: bool,
    methods: Vec<(String, String)>,     // method name -> free fn
    after_call: Vec<(String, String)>,  // normalised callee path -> template ($1 = first arg)
    drop_attr: Vec<String>,
    raw_ident: Vec<String>,
    calls: Vec<(String, String)>,       // normalised callee path -> replacement path
    callx: Vec<(String, String)>,
    rev_range: bool,
    vec_for: bool,
    pairs_for: Option<String>,          // R20: `for (a, b) in PLACE` -> while loop over `F(PLACE)` (F given by the overlay, returns a Vec/slice of pairs)
    filter_for: Option<String>,         // R21: `for x in RECV.filter(|p| COND)` -> while loop over RECV with the closure bound in front of it (the type of p is given)
    hoist_fn: bool,
    exprs: Vec<(String, String)>,       // normalised token string of an expression -> replacement text (R17)
    field_calls: Vec<String>,           // field names whose read access `X.f` becomes the accessor call `X.f()` (R19: the struct is opaque in the unit)
    drop_cfg: Vec<String>,              // statements carrying #[cfg(feature = "X")] for a listed X are dropped (R18)
    keep_cfg: Vec<String>,              // statements carrying #[cfg(feature = "X")] for a listed X are kept, the attribute is dropped (R18b: the feature is ON in the verified configuration)
    after_method: Vec<(String, String)>, // method name -> ghost template ($idx = last index expression of the receiver, $recv = receiver)       // normalised callee path -> replacement of the whole call expression
    pub_super: bool,
    macro_call: Vec<(String, String)>,  // macro name -> fn name (args kept verbatim)
}

fn brange<T: Spanned>(t: &T) -> (usize, usize) {
    let r = t.span().byte_range();
    (r.start, r.end)
}

fn loop_body_of(e: &syn::Expr) -> Option<(usize, usize)> {
    let b = match e {
        syn::Expr::While(w) => &w.body,
        syn::Expr::Loop(l) => &l.body,
        syn::Expr::ForLoop(f) => &f.body,
        _ => return None,
    };
    let o = b.brace_token.span.open().byte_range().start;
    let c = b.brace_token.span.close().byte_range().start;
    Some((o, c))
}

fn split_top_commas(ts: TokenStream) -> Vec<Vec<TokenTree>> {
    let mut out = vec![vec![]];
    for tt in ts {
        if let TokenTree::Punct(p) = &tt {
            if p.as_char() == ',' {
                out.push(vec![]);
                continue;
            }
        }
        out.last_mut().unwrap().push(tt);
    }
    if out.last().map(|v| v.is_empty()).unwrap_or(false) {
        out.pop();
    }
    out
}

fn tts_range(v: &[TokenTree]) -> Option<(usize, usize)> {
    let a = v.first()?.span().byte_range().start;
    let b = v.last()?.span().byte_range().end;
    Some((a, b))
}

impl<'a> FnScan<'a> {
    fn push_edit(&mut self, pos: usize, end: usize, text: String, rule: &str, kept: Vec<String>) {
        self.seq += 1;
        self.edits.push(Edit { pos, end, text, rule: rule.to_string(), kept, oline: 0, seq: self.seq });
    }

    fn macro_rewrite(&mut self, mac: &syn::Macro, start: usize, end: usize, semi: bool) -> bool {
        let name = mac.path.segments.last().map(|s| s.ident.to_string()).unwrap_or_default();
        let tail = if semi { ";" } else { "" };
        match name.as_str() {
            "assert" if self.rules.assert => {
                let parts = split_top_commas(mac.tokens.clone());
                if let Some((a, b)) = parts.first().and_then(|p| tts_range(p)) {
                    let cond = self.src[a..b].to_string();
                    // the condition is macro input (tokens, not a visited expression): an R17 rule that matches it as a whole applies here too
                    let ncond = norm_str(&cond).replace(' ', "");
                    if let Some((_, to)) = self.rules.exprs.iter().find(|(p, _)| *p == ncond).cloned() {
                        self.push_edit(start, end, format!("rt_assert({}){}", to, tail), "R1:assert+R17", vec![]);
                        return true;
                    }
                    self.push_edit(start, end, format!("rt_assert({}){}", cond, tail), "R1:assert", vec![cond]);
                    return true;
                }
            }
            "assert_eq" | "assert_ne" if self.rules.assert => {
                let parts = split_top_commas(mac.tokens.clone());
                if parts.len() >= 2 {
                    if let (Some((a0, a1)), Some((b0, b1))) = (tts_range(&parts[0]), tts_range(&parts[1])) {
                        let l = self.src[a0..a1].to_string();
                        let r = self.src[b0..b1].to_string();
                        let f = if name == "assert_eq" { "rt_assert_eq" } else { "rt_assert_ne" };
                        self.push_edit(start, end, format!("{}(&{}, &{}){}", f, l, r, tail), "R1:assert_eq", vec![l, r]);
                        return true;
                    }
                }
            }
            "unreachable" if self.rules.panic => {
                self.push_edit(start, end, format!("rt_unreachable(){}", tail), "R2:unreachable", vec![]);
                return true;
            }
            "panic" | "todo" | "unimplemented" if self.rules.panic => {
                self.push_edit(start, end, format!("rt_diverge(){}", tail), "R2:panic", vec![]);
                return true;
            }
            _ => {
                if let Some((_, f)) = self.rules.macro_call.iter().find(|(m, _)| *m == name) {
                    let args = match tts_range(&mac.tokens.clone().into_iter().collect::<Vec<_>>()) {
                        Some((a, b)) => self.src[a..b].to_string(),
                        None => String::new(),
                    };
                    let f = f.clone();
                    self.push_edit(start, end, format!("{}({}){}", f, args, tail), "R6:macro-call", vec![args]);
                    return true;
                }
            }
        }
        false
    }

    fn is_print_only_block(b: &syn::Block) -> bool {
        !b.stmts.is_empty()
            && b.stmts.iter().all(|s| match s {
                syn::Stmt::Macro(m) => {
                    let n = m.mac.path.segments.last().map(|s| s.ident.to_string()).unwrap_or_default();
                    n == "println" || n == "eprintln" || n == "print" || n == "eprint"
                }
                _ => false,
            })
    }
}

impl<'a, 'ast> Visit<'ast> for FnScan<'a> {
    fn visit_stmt(&mut self, s: &'ast syn::Stmt) {
        let (start, end) = brange(s);
        let mut norm = String::new();
        norm_tokens(quote::ToTokens::to_token_stream(s), &mut norm);
        let loop_body = match s {
            syn::Stmt::Expr(e, _) => loop_body_of(e),
            _ => None,
        };
        let for_expr = match s {
            syn::Stmt::Expr(syn::Expr::ForLoop(f), _) => Some(brange(&*f.expr).0),
            _ => None,
        };
        self.stmts.push(StmtInfo { start, end, norm: norm.trim().to_string(), loop_body, depth: self.depth, for_expr });

        // R7 quiet-print elision: `if !self.quiet { println!…; }` with print-only body and no else
        if self.rules.quiet_print {
            if let syn::Stmt::Expr(syn::Expr::If(ifx), _) = s {
                let mut c = String::new();
                norm_tokens(quote::ToTokens::to_token_stream(&*ifx.cond), &mut c);
                if c.trim() == "! self . quiet" && ifx.else_branch.is_none() && Self::is_print_only_block(&ifx.then_branch) {
                    self.push_edit(start, end, String::new(), "R7:quiet-print", vec![]);
                    return; // do not descend
                }
            }
        }
        // statement macros
        if let syn::Stmt::Macro(m) = s {
            if self.macro_rewrite(&m.mac, start, end, m.semi_token.is_some()) {
                return;
            }
        }
        // R4 after-call: `Path::f(args);`
        if let syn::Stmt::Expr(syn::Expr::Call(c), Some(_)) = s {
            let mut f = String::new();
            norm_tokens(quote::ToTokens::to_token_stream(&*c.func), &mut f);
            let f = f.replace(' ', "");
            let hit = self.rules.after_call.iter().find(|(p, _)| *p == f).cloned();
            if let Some((_, tmpl)) = hit {
                let a1 = c.args.first().map(|a| {
                    let (x, y) = brange(a);
                    self.src[x..y].to_string()
                });
                let text = format!("{} {}", &self.src[start..end], tmpl.replace("$1", a1.as_deref().unwrap_or("")));
                self.seq += 1;
                let mut kept: Vec<String> = a1.into_iter().collect();
                kept.push(self.src[start..end].to_string());
                self.edits.push(Edit { pos: start, end, text, rule: "R4:after-call".into(), kept, oline: 0, seq: self.seq });
                return;
            }
        }
        // R18: a statement guarded by #[cfg(feature = "X")] for a feature that is off in the verified configuration is dropped
        if !self.rules.drop_cfg.is_empty() || !self.rules.keep_cfg.is_empty() {
            let attrs: &[syn::Attribute] = match s {
                syn::Stmt::Macro(m) => &m.attrs,
                syn::Stmt::Local(l) => &l.attrs,
                syn::Stmt::Expr(syn::Expr::Block(b), _) => &b.attrs,
                syn::Stmt::Expr(syn::Expr::Macro(m), _) => &m.attrs,
                syn::Stmt::Expr(syn::Expr::MethodCall(m), _) => &m.attrs,
                syn::Stmt::Expr(syn::Expr::Call(m), _) => &m.attrs,
                syn::Stmt::Expr(syn::Expr::If(m), _) => &m.attrs,
                _ => &[],
            };
            for a in attrs.iter() {
                if a.path().is_ident("cfg") {
                    let mut t = String::new();
                    norm_tokens(quote::ToTokens::to_token_stream(a), &mut t);
                    let t = t.replace(' ', "");
                    if self.rules.drop_cfg.iter().any(|f| t == format!("#[cfg(feature=\"{}\")]", f)) {
                        self.push_edit(start, end, String::new(), "R18:drop-cfg-stmt", vec![]);
                        return;
                    }
                    if self.rules.keep_cfg.iter().any(|f| t == format!("#[cfg(feature=\"{}\")]", f)) {
                        let (as_, ae) = brange(a);
                        self.push_edit(as_, ae, String::new(), "R18b:cfg-attr-of-enabled-feature", vec![]);
                    }
                }
            }
        }
        // R16: a nested `fn` item (it cannot capture anything) is extracted as a function of its own (@@fn Outer::inner) and
        // removed from the body of the enclosing function
        if self.rules.hoist_fn {
            if let syn::Stmt::Item(syn::Item::Fn(_)) = s {
                self.push_edit(start, end, String::new(), "R16:hoist-nested-fn", vec![]);
                return;
            }
        }
        // R14/R15: `for` loops over a Vec/slice place are desugared to `while` loops over an explicit cursor:
        //   for (i, x) in V.iter().enumerate() { body } -> let i_seq = &V; let mut i_cur: usize = 0; while i_cur < i_seq.len() { let i = i_cur; let x = &i_seq[i_cur]; i_cur += 1; body }
        //   for x in &V { body } / for x in V { body }  -> let x_seq = &V / V; let mut x_cur: usize = 0; while x_cur < x_seq.len() { let x = &x_seq[x_cur]; x_cur += 1; body }
        // (only meaningful where V is a Vec or slice, or a shared reference to one; anything else fails to compile)
        if self.rules.vec_for {
            if let syn::Stmt::Expr(syn::Expr::ForLoop(fl), _) = s {
                let body_open = fl.body.brace_token.span.open().byte_range().start;
                let mut done = false;
                match (&*fl.pat, &*fl.expr) {
                    (syn::Pat::Tuple(pt), syn::Expr::MethodCall(en)) if en.method == "enumerate" && en.args.is_empty() && pt.elems.len() == 2 => {
                        if let (syn::Pat::Ident(pi), syn::Pat::Ident(px), syn::Expr::MethodCall(it)) = (&pt.elems[0], &pt.elems[1], &*en.receiver) {
                            if it.method == "iter" && it.args.is_empty() {
                                let (rs, re) = brange(&*it.receiver);
                                let recv = self.src[rs..re].to_string();
                                let i = pi.ident.to_string();
                                let x = px.ident.to_string();
                                let head = format!("let {i}_seq = &{recv}; let mut {i}_cur: usize = 0; while {i}_cur < {i}_seq.len() ", i = i, recv = recv);
                                let first = format!(" let {i} = {i}_cur; let {x} = &{i}_seq[{i}_cur]; {i}_cur += 1; ", i = i, x = x);
                                self.push_edit(start, body_open, head, "R14:enumerate-for-loop", vec![recv, i]);
                                self.seq += 1;
                                self.edits.push(Edit { pos: body_open + 1, end: body_open + 1, text: first, rule: "R14:enumerate-for-loop".into(), kept: vec![], oline: 0, seq: 0 });
                                done = true;
                            }
                        }
                    }
                    // R20: for (a, b) in PLACE { body } -> let a_seq = F(PLACE); let mut a_cur: usize = 0; while a_cur < a_seq.len() { let a = &a_seq[a_cur].0; let b = &a_seq[a_cur].1; a_cur += 1; body }
                    (syn::Pat::Tuple(pt), e @ syn::Expr::Path(_)) if self.rules.pairs_for.is_some() && pt.elems.len() == 2 => {
                        if let (syn::Pat::Ident(pa), syn::Pat::Ident(pb)) = (&pt.elems[0], &pt.elems[1]) {
                            let f = self.rules.pairs_for.clone().unwrap();
                            let (rs, re) = brange(e);
                            let recv = self.src[rs..re].to_string();
                            let a = pa.ident.to_string();
                            let b = pb.ident.to_string();
                            let head = format!("let {a}_seq = {f}({recv}); let mut {a}_cur: usize = 0; while {a}_cur < {a}_seq.len() ", a = a, f = f, recv = recv);
                            let first = format!(" let {a} = &{a}_seq[{a}_cur].0; let {b} = &{a}_seq[{a}_cur].1; {a}_cur += 1; ", a = a, b = b);
                            self.push_edit(start, body_open, head, "R20:pairs-for-loop", vec![recv, a]);
                            self.seq += 1;
                            self.edits.push(Edit { pos: body_open + 1, end: body_open + 1, text: first, rule: "R20:pairs-for-loop".into(), kept: vec![], oline: 0, seq: 0 });
                            done = true;
                        }
                    }
                    // R21: for x in RECV.filter(|p| COND) { body } -> let x_seq = RECV; let x_flt = |p: T| COND; let mut x_cur: usize = 0;
                    //      while x_cur < x_seq.len() { let x = x_seq[x_cur]; x_cur += 1; if !x_flt(&x) { continue; } body }
                    // (RECV and the closure stay where they are and are rewritten / annotated like any other code; T is given by the overlay)
                    (syn::Pat::Ident(px), syn::Expr::MethodCall(mc)) if self.rules.filter_for.is_some() && mc.method == "filter" && mc.args.len() == 1 => {
                        if let syn::Expr::Closure(cl) = &mc.args[0] {
                            if cl.inputs.len() == 1 {
                                if let syn::Pat::Ident(pp) = &cl.inputs[0] {
                                    let ty = self.rules.filter_for.clone().unwrap();
                                    let x = px.ident.to_string();
                                    let (rs, re) = brange(&*mc.receiver);
                                    let (cs, ce) = brange(cl);
                                    let (_, pe) = brange(pp);
                                    self.push_edit(start, rs, format!("let {x}_seq = ", x = x), "R21:filter-for-loop", vec![x.clone()]);
                                    self.visit_expr(&mc.receiver);
                                    self.push_edit(re, cs, format!("; let {x}_flt = ", x = x), "R21:filter-for-loop", vec![]);
                                    self.push_edit(pe, pe, format!(": {}", ty), "R21:filter-for-loop", vec![]);
                                    self.visit_expr(&mc.args[0]);
                                    self.push_edit(ce, body_open, format!("; let mut {x}_cur: usize = 0; while {x}_cur < {x}_seq.len() ", x = x), "R21:filter-for-loop", vec![]);
                                    self.seq += 1;
                                    self.edits.push(Edit { pos: body_open + 1, end: body_open + 1, text: format!(" let {x} = {x}_seq[{x}_cur]; {x}_cur += 1; if !{x}_flt(&{x}) {{ continue; }} ", x = x), rule: "R21:filter-for-loop".into(), kept: vec![], oline: 0, seq: 0 });
                                    done = true;
                                }
                            }
                        }
                    }
                    (syn::Pat::Ident(px), e) if !matches!(e, syn::Expr::Range(_) | syn::Expr::MethodCall(_) | syn::Expr::Call(_) | syn::Expr::Paren(_)) => {
                        let is_mut_ref = matches!(e, syn::Expr::Reference(r) if r.mutability.is_some());
                        if !is_mut_ref {
                            let (rs, re) = brange(e);
                            let recv = self.src[rs..re].to_string();
                            let x = px.ident.to_string();
                            let head = format!("let {x}_seq = {recv}; let mut {x}_cur: usize = 0; while {x}_cur < {x}_seq.len() ", x = x, recv = recv);
                            let first = format!(" let {x} = &{x}_seq[{x}_cur]; {x}_cur += 1; ", x = x);
                            self.push_edit(start, body_open, head, "R15:vec-for-loop", vec![recv, x]);
                            self.seq += 1;
                            self.edits.push(Edit { pos: body_open + 1, end: body_open + 1, text: first, rule: "R15:vec-for-loop".into(), kept: vec![], oline: 0, seq: 0 });
                            done = true;
                        }
                    }
                    _ => {}
                }
                if done {
                    self.visit_block(&fl.body);
                    return;
                }
            }
        }
        // R13: range `for` loops are desugared to `while` loops over an explicit cursor (independent of vstd's iterator specs):
        //   for i in A..B { body }          ->  let i_lo = A; let i_end = B; let mut i_cur = i_lo;  while i_cur < i_end { let i = i_cur; i_cur += 1; body }
        //   for i in (A..B).rev() { body }  ->  let i_lo = A; let i_end = B; let mut i_cur = i_end; while i_cur > i_lo { i_cur -= 1; let i = i_cur; body }
        if self.rules.rev_range {
            if let syn::Stmt::Expr(syn::Expr::ForLoop(fl), _) = s {
                if let syn::Pat::Ident(pi) = &*fl.pat {
                    let (range_expr, rev): (Option<&syn::Expr>, bool) = match &*fl.expr {
                        syn::Expr::MethodCall(mc) if mc.method == "rev" && mc.args.is_empty() => {
                            let inner = match &*mc.receiver {
                                syn::Expr::Paren(p) => &*p.expr,
                                e => e,
                            };
                            (Some(inner), true)
                        }
                        e @ syn::Expr::Range(_) => (Some(e), false),
                        _ => (None, false),
                    };
                    if let Some(syn::Expr::Range(r)) = range_expr {
                        if let (Some(a), Some(b), syn::RangeLimits::HalfOpen(_)) = (&r.start, &r.end, &r.limits) {
                            let (a0, a1) = brange(&**a);
                            let (b0, b1) = brange(&**b);
                            let v = pi.ident.to_string();
                            let lo = self.src[a0..a1].to_string();
                            let hi = self.src[b0..b1].to_string();
                            let body_open = fl.body.brace_token.span.open().byte_range().start;
                            let (head_text, first) = if rev {
                                (format!("let {v}_lo = {lo}; let {v}_end = {hi}; let mut {v}_cur = {v}_end; while {v}_cur > {v}_lo ", v = v, hi = hi, lo = lo), format!(" {v}_cur -= 1; let {v} = {v}_cur; ", v = v))
                            } else {
                                (format!("let {v}_lo = {lo}; let {v}_end = {hi}; let mut {v}_cur = {v}_lo; while {v}_cur < {v}_end ", v = v, hi = hi, lo = lo), format!(" let {v} = {v}_cur; {v}_cur += 1; ", v = v))
                            };
                            self.push_edit(start, body_open, head_text, "R13:range-for-loop", vec![lo, hi, v.clone()]);
                            self.seq += 1;
                            self.edits.push(Edit { pos: body_open + 1, end: body_open + 1, text: first, rule: "R13:range-for-loop".into(), kept: vec![], oline: 0, seq: 0 });
                            self.visit_block(&fl.body);
                            return;
                        }
                    }
                }
            }
        }
        // R4b after-method: a statement `recv.m(..);`, `x = recv.m(..);` or `let x = recv.m(..);` is followed by a ghost record
        if !self.rules.after_method.is_empty() {
            let top: Option<&syn::Expr> = match s {
                syn::Stmt::Expr(syn::Expr::Assign(a), Some(_)) => Some(&*a.right),
                syn::Stmt::Expr(e, Some(_)) => Some(e),
                syn::Stmt::Local(l) => l.init.as_ref().map(|i| &*i.expr),
                _ => None,
            };
            if let Some(syn::Expr::MethodCall(m)) = top {
                let name = m.method.to_string();
                // a template that mentions the call's result (`r__`) needs the expression form: `{ let r__ = call; <ghost> r__ }`
                if let Some((_, tmpl)) = self.rules.after_method.iter().find(|(n, t)| *n == name && !t.contains("r__")).cloned() {
                    let (rs, re) = brange(&*m.receiver);
                    let recv = self.src[rs..re].to_string();
                    let idx = match &*m.receiver {
                        syn::Expr::Index(ix) => {
                            let (a, b) = brange(&*ix.index);
                            self.src[a..b].to_string()
                        }
                        _ => String::new(),
                    };
                    let args: Vec<String> = m.args.iter().map(|a| { let (x, y) = brange(a); self.src[x..y].to_string() }).collect();
                    let tmpl = tmpl.replace("$args", &args.join(", ")).replace("$arg1", args.first().map(|s| s.as_str()).unwrap_or(""));
                    let text = format!("{} {}", &self.src[start..end], tmpl.replace("$idx", &idx).replace("$recv", &recv));
                    self.seq += 1;
                    // nested rewrites inside the statement are not combined with this rule: the statement is kept verbatim
                    self.edits.push(Edit { pos: start, end, text, rule: "R4:after-method".into(), kept: vec![self.src[start..end].to_string()], oline: 0, seq: self.seq });
                    return;
                }
            }
        }
        syn::visit::visit_stmt(self, s);
    }

    fn visit_block(&mut self, b: &'ast syn::Block) {
        // `depth` holds the ordinal of the enclosing block (statements with equal values are siblings)
        let saved = self.depth;
        self.block_counter += 1;
        self.depth = self.block_counter;
        syn::visit::visit_block(self, b);
        self.depth = saved;
    }

    fn visit_expr(&mut self, e: &'ast syn::Expr) {
        // R17: an expression whose normalised token string is listed is replaced as a whole (logged with original and new text)
        if !self.rules.exprs.is_empty() {
            let mut n = String::new();
            norm_tokens(quote::ToTokens::to_token_stream(e), &mut n);
            let mut n = n.replace(' ', "");
            // outer attributes of the expression (e.g. #[cfg(feature = "async")] on an expression statement) are not part of the pattern
            let attrs: &[syn::Attribute] = match e {
                syn::Expr::MethodCall(x) => &x.attrs,
                syn::Expr::Call(x) => &x.attrs,
                syn::Expr::ForLoop(x) => &x.attrs,
                syn::Expr::Assign(x) => &x.attrs,
                syn::Expr::Field(x) => &x.attrs,
                syn::Expr::Path(x) => &x.attrs,
                syn::Expr::Macro(x) => &x.attrs,
                _ => &[],
            };
            let mut s_from = brange(e).0;
            for a in attrs.iter() {
                let mut t = String::new();
                norm_tokens(quote::ToTokens::to_token_stream(a), &mut t);
                let t = t.replace(' ', "");
                if n.starts_with(&t) {
                    n = n[t.len()..].to_string();
                    s_from = brange(a).1;
                }
            }
            if let Some((_, to)) = self.rules.exprs.iter().find(|(p, _)| *p == n).cloned() {
                let (_, e0) = brange(e);
                self.push_edit(s_from, e0, to, "R17:expr-rewrite", vec![]);
                return;
            }
        }
        syn::visit::visit_expr(self, e);
    }

    fn visit_expr_field(&mut self, f: &'ast syn::ExprField) {
        // R19: `X.f` -> `X.f()` for the listed field names (read access through an assumed accessor of an opaque shim type)
        if let syn::Member::Named(id) = &f.member {
            if self.rules.field_calls.iter().any(|n| id == n) {
                let e = id.span().byte_range().end;
                self.seq += 1;
                self.edits.push(Edit { pos: e, end: e, text: "()".to_string(), rule: "R19:field-to-accessor".into(), kept: vec![], oline: 0, seq: self.seq });
            }
        }
        syn::visit::visit_expr_field(self, f);
    }

    fn visit_expr_macro(&mut self, m: &'ast syn::ExprMacro) {
        let (start, end) = brange(m);
        if !self.macro_rewrite(&m.mac, start, end, false) {
            syn::visit::visit_expr_macro(self, m);
        }
    }

    fn visit_expr_closure(&mut self, c: &'ast syn::ExprClosure) {
        let (bs, be) = brange(&*c.body);
        self.closures.push(ClosureInfo { body_start: bs, body_end: be, has_ret: !matches!(c.output, syn::ReturnType::Default) });
        syn::visit::visit_expr_closure(self, c);
    }

    fn visit_expr_call(&mut self, c: &'ast syn::ExprCall) {
        // R3b: call through a dropped trait bound -> free function (arguments verbatim)
        let mut f = String::new();
        norm_tokens(quote::ToTokens::to_token_stream(&*c.func), &mut f);
        let f = f.replace(' ', "");
        if let Some((_, to)) = self.rules.callx.iter().find(|(p, _)| *p == f).cloned() {
            let (s, e) = brange(c);
            self.push_edit(s, e, to, "R4:global-read-to-ghost", vec![]);
            return;
        }
        if let Some((_, to)) = self.rules.calls.iter().find(|(p, _)| *p == f).cloned() {
            let (s, e) = brange(&*c.func);
            let orig = self.src[s..e].to_string();
            self.push_edit(s, e, to, "R3:path-call-to-fn", vec![]);
            let _ = orig;
            for a in c.args.iter() {
                self.visit_expr(a);
            }
            return;
        }
        syn::visit::visit_expr_call(self, c);
    }

    fn visit_expr_method_call(&mut self, m: &'ast syn::ExprMethodCall) {
        let name = m.method.to_string();
        // R4b in expression position: `recv.m(args)` -> `{ let r__ = recv.m(args); <ghost record> r__ }`
        if let Some((_, tmpl)) = self.rules.after_method.iter().find(|(n, _)| *n == name).cloned() {
            let (s0, e0) = brange(m);
            let (rs, re) = brange(&*m.receiver);
            let recv = self.src[rs..re].to_string();
            let idx = match &*m.receiver {
                syn::Expr::Index(ix) => {
                    let (a, b) = brange(&*ix.index);
                    self.src[a..b].to_string()
                }
                _ => String::new(),
            };
            let call = self.src[s0..e0].to_string();
            let args: Vec<String> = m.args.iter().map(|a| { let (x, y) = brange(a); self.src[x..y].to_string() }).collect();
            let tmpl = tmpl.replace("$args", &args.join(", ")).replace("$arg1", args.first().map(|s| s.as_str()).unwrap_or(""));
            let text = format!("{{ let r__ = {}; {} r__ }}", call, tmpl.replace("$idx", &idx).replace("$recv", &recv));
            self.push_edit(s0, e0, text, "R4:after-method-expr", vec![call]);
            return;
        }
        // R3 method -> free function
        if let Some((_, f)) = self.rules.methods.iter().find(|(n, _)| *n == name).cloned() {
            let (s, e) = brange(m);
            let (rs, re) = brange(&*m.receiver);
            let recv = self.src[rs..re].to_string();
            let args: Vec<String> = m.args.iter().map(|a| { let (x, y) = brange(a); self.src[x..y].to_string() }).collect();
            let mut all = vec![recv.clone()];
            all.extend(args.iter().cloned());
            if f.contains("$recv") && f.contains("$args") && !m.args.is_empty() {
                // template form: rewrite only around the arguments, so that rules still apply inside them
                let mut parts = f.splitn(2, "$args");
                let pre = parts.next().unwrap_or("").replace("$recv", &recv);
                let post = parts.next().unwrap_or("").to_string();
                let a0 = brange(m.args.first().unwrap()).0;
                let a1 = brange(m.args.last().unwrap()).1;
                self.push_edit(s, a0, pre, "R3:method-to-fn-prefix", vec![recv.clone()]);
                self.push_edit(a1, e, post, "R3:method-to-fn-suffix", vec![]);
                for a in m.args.iter() {
                    self.visit_expr(a);
                }
                return;
            }
            let text = if f.contains("$recv") { f.replace("$recv", &recv).replace("$args", &args.join(", ")) } else { format!("{}({})", f, all.join(", ")) };
            self.push_edit(s, e, text, "R3:method-to-fn", all);
            return;
        }
        // R8 X.iter().position(F) / rposition(F)
        if self.rules.position && (name == "position" || name == "rposition" || name == "any") && m.args.len() == 1 {
            if let syn::Expr::MethodCall(inner) = &*m.receiver {
                if inner.method == "iter" && inner.args.is_empty() {
                    let (s, e) = brange(m);
                    let (rs, re) = brange(&*inner.receiver);
                    let recv = self.src[rs..re].to_string();
                    let (as_, ae) = brange(&m.args[0]);
                    // the closure argument may itself receive insertions: keep it as a nested region by
                    // rewriting only the prefix and suffix around it
                    let pre = format!("{}_by(&{}, ", name, recv);
                    self.push_edit(s, as_, pre, "R8:position-prefix", vec![recv]);
                    self.push_edit(ae, e, ")".to_string(), "R8:position-suffix", vec![]);
                    self.visit_expr(&m.args[0]);
                    return;
                }
            }
        }
        syn::visit::visit_expr_method_call(self, m);
    }
}

// ------------------------------------------------------------------------------------------------
// emission

struct Emitter {
    out: String,
    line: usize,
    linemap: Vec<(usize, String, usize, usize)>, // (gen line start, origin file ("S:rel" / "O:overlay" / "G"), origin line, gen column (1-based, in chars) where the chunk starts)
}

impl Emitter {
    fn push(&mut self, text: &str, origin: &str, oline: usize) {
        let col = match self.out.rfind('\n') { Some(p) => self.out[p + 1..].chars().count() + 1, None => self.out.chars().count() + 1 };
        self.linemap.push((self.line, origin.to_string(), oline, col));
        self.out.push_str(text);
        self.line += text.matches('\n').count();
    }
}

fn jesc(s: &str) -> String {
    let mut o = String::with_capacity(s.len() + 2);
    o.push('"');
    for c in s.chars() {
        match c {
            '"' => o.push_str("\\\""),
            '\\' => o.push_str("\\\\"),
            '\n' => o.push_str("\\n"),
            '\r' => o.push_str("\\r"),
            '\t' => o.push_str("\\t"),
            c if (c as u32) < 0x20 => {
                let _ = write!(o, "\\u{:04x}", c as u32);
            }
            c => o.push(c),
        }
    }
    o.push('"');
    o
}

/// Apply edits to src[start..end] and emit it with markers.
fn emit_with_edits(em: &mut Emitter, sf: &SrcFile, start: usize, end: usize, edits: &mut Vec<Edit>, overlay_name: &str, rw_log: &mut Vec<String>, rw_counter: &mut usize) {
    edits.sort_by(|a, b| (a.pos, a.end != a.pos, a.seq).cmp(&(b.pos, b.end != b.pos, b.seq)));
    let mut cur = start;
    let srcorigin = format!("S:{}", sf.rel);
    for e in edits.iter() {
        if e.pos < cur || e.end > end {
            die(2, &format!("INTERNAL overlapping edits in {} at byte {} (rule {})", sf.rel, e.pos, e.rule));
        }
        if e.pos > cur {
            em.push(&sf.text[cur..e.pos], &srcorigin, sf.line_of(cur));
        }
        if e.rule.is_empty() {
            em.push("/*@+*/", "G", 0);
            em.push(&e.text, &format!("O:{}", overlay_name), e.oline);
            em.push("/*@-*/", "G", 0);
        } else {
            *rw_counter += 1;
            let n = *rw_counter;
            let orig = &sf.text[e.pos..e.end];
            em.push(&format!("/*@R{}{{*/", n), "G", 0);
            em.push(&e.text, &srcorigin, sf.line_of(e.pos));
            em.push(&format!("/*@R{}}}*/", n), "G", 0);
            let kept: Vec<String> = e.kept.iter().map(|k| jesc(k)).collect();
            rw_log.push(format!(
                "{{\"n\":{},\"rule\":{},\"file\":{},\"line\":{},\"orig\":{},\"new\":{},\"kept\":[{}]}}",
                n, jesc(&e.rule), jesc(&sf.rel), sf.line_of(e.pos), jesc(orig), jesc(&e.text), kept.join(",")
            ));
        }
        cur = e.end;
    }
    if cur < end {
        em.push(&sf.text[cur..end], &srcorigin, sf.line_of(cur));
    }
}

/// R11: identifiers that are keywords of the Verus macro are written as raw identifiers (same identifier for rustc)
fn raw_ident_edits(ts: TokenStream, rules: &Rules, edits: &mut Vec<Edit>, seq: &mut usize) {
    if rules.raw_ident.is_empty() {
        return;
    }
    for tt in ts {
        match tt {
            TokenTree::Group(g) => raw_ident_edits(g.stream(), rules, edits, seq),
            TokenTree::Ident(i) => {
                let name = i.to_string();
                if rules.raw_ident.iter().any(|r| *r == name) {
                    let r = i.span().byte_range();
                    *seq += 1;
                    edits.push(Edit { pos: r.start, end: r.end, text: format!("r#{}", name), rule: "R11:raw-ident".into(), kept: vec![name], oline: 0, seq: *seq });
                }
            }
            _ => {}
        }
    }
}

/// table snippet of a statement: first 60 chars; block statements are cut at their first `{` (header only)
fn snippet_of(norm: &str) -> String {
    let first = norm.split_whitespace().next().unwrap_or("");
    let mut t: String = norm.chars().take(60).collect();
    if matches!(first, "loop" | "while" | "for" | "if" | "match" | "unsafe") {
        if let Some(p) = norm.find(" { ") {
            let head: String = norm[..p + 2].chars().take(60).collect();
            t = head;
        }
    }
    t
}

fn replace_word(text: &str, from: &str, to: &str) -> String {
    let b = text.as_bytes();
    let mut out = String::new();
    let mut i = 0;
    let isid = |c: u8| c.is_ascii_alphanumeric() || c == b'_';
    while i < b.len() {
        if text[i..].starts_with(from) && (i == 0 || !isid(b[i - 1])) && (i + from.len() >= b.len() || !isid(b[i + from.len()])) {
            out.push_str(to);
            i += from.len();
        } else {
            let ch = text[i..].chars().next().unwrap();
            out.push(ch);
            i += ch.len_utf8();
        }
    }
    out
}

fn self_tokens(ts: TokenStream, out: &mut Vec<(usize, usize)>) {
    for tt in ts {
        match tt {
            TokenTree::Group(g) => self_tokens(g.stream(), out),
            TokenTree::Ident(i) => {
                if i == "self" {
                    let r = i.span().byte_range();
                    out.push((r.start, r.end));
                }
            }
            _ => {}
        }
    }
}

fn attr_edits(attrs: &[syn::Attribute], rules: &Rules, src: &str, edits: &mut Vec<Edit>, seq: &mut usize) {
    for a in attrs {
        let name = a.path().segments.last().map(|s| s.ident.to_string()).unwrap_or_default();
        let is_doc = name == "doc";
        let mut drop = rules.drop_attr.iter().any(|d| *d == name);
        if name == "cfg_attr" && rules.drop_attr.iter().any(|d| d == "cfg_attr") {
            drop = true;
        }
        if drop && !is_doc {
            let (s, e) = brange(a);
            let _ = src;
            *seq += 1;
            edits.push(Edit { pos: s, end: e, text: String::new(), rule: "R5:drop-attr".into(), kept: vec![], oline: 0, seq: *seq });
        }
    }
}

fn vis_edit(vis: &syn::Visibility, fallback: usize, rules: &Rules, edits: &mut Vec<Edit>, seq: &mut usize) {
    // R10: visibility has no run-time meaning; Verus' visibility rules for spec functions need the
    // extracted items to be uniformly `pub` inside the single generated module.
    if !rules.pub_super {
        return;
    }
    match vis {
        syn::Visibility::Public(_) => {}
        syn::Visibility::Restricted(_) => {
            let (s, e) = brange(vis);
            *seq += 1;
            edits.push(Edit { pos: s, end: e, text: "pub".into(), rule: "R10:vis-to-pub".into(), kept: vec![], oline: 0, seq: *seq });
        }
        syn::Visibility::Inherited => {
            *seq += 1;
            edits.push(Edit { pos: fallback, end: fallback, text: "pub ".into(), rule: "R10:vis-to-pub".into(), kept: vec![], oline: 0, seq: *seq });
        }
    }
}

fn main() {
    let args: Vec<String> = std::env::args().collect();
    if args.len() < 2 {
        die(2, "usage: vx <overlay.vrs> --repo <dir> --out <gen.rs> --report <report.json>");
    }
    let overlay_path = args[1].clone();
    let mut repo = String::from("/repo");
    let mut outp = String::from("gen.rs");
    let mut repp = String::from("report.json");
    let mut vacuity = false;
    let mut i = 2;
    while i < args.len() {
        match args[i].as_str() {
            "--repo" => repo = args[i + 1].clone(),
            "--out" => outp = args[i + 1].clone(),
            "--report" => repp = args[i + 1].clone(),
            "--vacuity" => {
                vacuity = true;
                i += 1;
                continue;
            }
            _ => {}
        }
        i += 2;
    }
    let overlay_src = std::fs::read_to_string(&overlay_path).unwrap_or_else(|e| die(2, &format!("cannot read overlay {}: {}", overlay_path, e)));
    let overlay_name = std::path::Path::new(&overlay_path).file_name().unwrap().to_string_lossy().to_string();
    let (unit, dirs) = parse_overlay(&overlay_src, &overlay_name);

    let mut files: BTreeMap<String, SrcFile> = BTreeMap::new();
    let mut cur_src: Option<String> = None;
    let mut rules = Rules::default();
    let mut em = Emitter { out: String::new(), line: 1, linemap: vec![] };
    let mut rw_log: Vec<String> = vec![];
    let mut rw_counter = 0usize;
    let mut item_log: Vec<String> = vec![];
    let mut open_impl: Option<(String, usize)> = None; // (file, impl item index)
    let mut in_verus = false;
    let mut item_no = 0usize;

    let close_impl = |em: &mut Emitter, open_impl: &mut Option<(String, usize)>| {
        if open_impl.is_some() {
            em.push("}\n\n", "G", 0);
            *open_impl = None;
        }
    };

    for d in dirs.iter() {
        match d {
            Dir::Top(t, l) => {
                close_impl(&mut em, &mut open_impl);
                if in_verus {
                    die(2, "OVERLAY-SYNTAX @@top after first verus item");
                }
                em.push(t, &format!("O:{}", overlay_name), *l);
            }
            Dir::Text(t, l) => {
                close_impl(&mut em, &mut open_impl);
                if !in_verus {
                    em.push("verus! {\n\n", "G", 0);
                    in_verus = true;
                }
                em.push(t, &format!("O:{}", overlay_name), *l);
                em.push("\n", "G", 0);
            }
            Dir::Source(s) => {
                close_impl(&mut em, &mut open_impl);
                if !files.contains_key(s) {
                    files.insert(s.clone(), load_source(&repo, s));
                }
                cur_src = Some(s.clone());
            }
            Dir::Rule(r, l) => {
                let mut w = r.splitn(2, char::is_whitespace);
                let name = w.next().unwrap_or("");
                let rest = w.next().unwrap_or("").trim();
                match name {
                    "assert" => rules.assert = rest != "off",
                    "panic" => rules.panic = rest != "off",
                    "quiet-print" => rules.quiet_print = rest != "off",
                    "position" => rules.position = rest != "off",
                    "range-for" | "rev-range" => rules.rev_range = rest != "off",
                    "vec-for" => rules.vec_for = rest != "off",
                    "pairs-for" => rules.pairs_for = if rest.is_empty() || rest == "off" { None } else { Some(rest.to_string()) },
                    "filter-for" => rules.filter_for = if rest.is_empty() || rest == "off" { None } else { Some(rest.to_string()) },
                    "drop-cfg-stmt" => rules.drop_cfg = rest.split_whitespace().map(|s| s.to_string()).collect(),
                    "keep-cfg-stmt" => rules.keep_cfg = rest.split_whitespace().map(|s| s.to_string()).collect(),
                    "field-call" => rules.field_calls = rest.split_whitespace().map(|s| s.to_string()).collect(),
                    "expr" => {
                        // @@rule expr «tokens of the expression» => replacement
                        let a0 = rest.find('«');
                        let a1 = rest.rfind('»');
                        if let (Some(a0), Some(a1)) = (a0, a1) {
                            let pat = norm_str(&rest[a0 + '«'.len_utf8()..a1]).replace(' ', "");
                            let to = rest[a1 + '»'.len_utf8()..].trim().trim_start_matches("=>").trim().to_string();
                            rules.exprs.retain(|(n, _)| *n != pat);
                            rules.exprs.push((pat, to));
                        } else {
                            die(2, &format!("OVERLAY-SYNTAX line {}: @@rule expr «…» => …", l));
                        }
                    }
                    "hoist-nested-fn" => rules.hoist_fn = rest != "off",
                    "pub-restricted" => rules.pub_super = rest != "off",
                    "drop-attr" => rules.drop_attr = rest.split_whitespace().map(|s| s.to_string()).collect(),
                    "raw-ident" => rules.raw_ident = rest.split_whitespace().map(|s| s.to_string()).collect(),
                    "method" => {
                        let mut p = rest.splitn(2, "=>");
                        let a = p.next().unwrap_or("").trim().to_string();
                        let b = p.next().unwrap_or("").trim().to_string();
                        rules.methods.retain(|(n, _)| *n != a);
                        if !b.is_empty() {
                            rules.methods.push((a, b));
                        }
                    }
                    "macro-call" => {
                        let mut p = rest.splitn(2, "=>");
                        let a = p.next().unwrap_or("").trim().to_string();
                        let b = p.next().unwrap_or("").trim().to_string();
                        rules.macro_call.retain(|(n, _)| *n != a);
                        if !b.is_empty() {
                            rules.macro_call.push((a, b));
                        }
                    }
                    "after-method" => {
                        let mut p = rest.splitn(2, "=>");
                        let a = p.next().unwrap_or("").trim().to_string();
                        let b = p.next().unwrap_or("").trim().to_string();
                        rules.after_method.retain(|(n, _)| *n != a);
                        if !b.is_empty() {
                            rules.after_method.push((a, b));
                        }
                    }
                    "call-expr" => {
                        let mut p = rest.splitn(2, "=>");
                        let a = p.next().unwrap_or("").trim().replace(' ', "");
                        let b = p.next().unwrap_or("").trim().to_string();
                        rules.callx.retain(|(n, _)| *n != a);
                        if !b.is_empty() {
                            rules.callx.push((a, b));
                        }
                    }
                    "call" => {
                        let mut p = rest.splitn(2, "=>");
                        let a = p.next().unwrap_or("").trim().replace(' ', "");
                        let b = p.next().unwrap_or("").trim().to_string();
                        rules.calls.retain(|(n, _)| *n != a);
                        if !b.is_empty() {
                            rules.calls.push((a, b));
                        }
                    }
                    "after-call" => {
                        let mut p = rest.splitn(2, "=>");
                        let a = p.next().unwrap_or("").trim().replace(' ', "");
                        let b = p.next().unwrap_or("").trim().to_string();
                        rules.after_call.retain(|(n, _)| *n != a);
                        if !b.is_empty() {
                            rules.after_call.push((a, b));
                        }
                    }
                    _ => die(2, &format!("OVERLAY-SYNTAX {}:{}: unknown rule {}", overlay_name, l, name)),
                }
            }
            Dir::Watch(path, line) => {
                // fingerprint of a function whose contract is only ASSUMED (not emitted, not verified)
                let srcname = cur_src.clone().unwrap_or_else(|| die(2, "OVERLAY-SYNTAX @@watch before @@source"));
                let sf = files.get(&srcname).unwrap();
                let segs: Vec<&str> = path.split("::").collect();
                let name = *segs.last().unwrap();
                let mut hits: Vec<String> = vec![];
                for (_mp, it) in sf.items.iter() {
                    match it {
                        syn::Item::Impl(im) if segs.len() >= 2 => {
                            if type_last_ident(&im.self_ty).as_deref() != Some(segs[segs.len() - 2]) {
                                continue;
                            }
                            for ii in im.items.iter() {
                                if let syn::ImplItem::Fn(f) = ii {
                                    if f.sig.ident == name {
                                        let mut n = String::new();
                                        norm_tokens(quote::ToTokens::to_token_stream(&f.sig), &mut n);
                                        norm_tokens(quote::ToTokens::to_token_stream(&f.block), &mut n);
                                        hits.push(n);
                                    }
                                }
                            }
                        }
                        syn::Item::Fn(f) if segs.len() == 1 => {
                            if f.sig.ident == name {
                                let mut n = String::new();
                                norm_tokens(quote::ToTokens::to_token_stream(&f.sig), &mut n);
                                norm_tokens(quote::ToTokens::to_token_stream(&*f.block), &mut n);
                                hits.push(n);
                            }
                        }
                        _ => {}
                    }
                }
                if hits.len() != 1 {
                    die(2, &format!("LOST-ANCHOR unit={} watch={} in {}: {} candidates (overlay line {})", unit, path, srcname, hits.len(), line));
                }
                let mut h: u64 = 0xcbf29ce484222325;
                for b in hits[0].bytes() {
                    h ^= b as u64;
                    h = h.wrapping_mul(0x100000001b3);
                }
                item_log.push(format!("{{\"kind\":\"watch\",\"path\":{},\"file\":{},\"fnv64\":\"{:016x}\"}}", jesc(path), jesc(&srcname), h));
            }
            Dir::Item { path, line, extra } => {
                close_impl(&mut em, &mut open_impl);
                if !in_verus {
                    em.push("verus! {\n\n", "G", 0);
                    in_verus = true;
                }
                let srcname = cur_src.clone().unwrap_or_else(|| die(2, "OVERLAY-SYNTAX @@item before @@source"));
                let sf = files.get(&srcname).unwrap();
                let segs: Vec<&str> = path.split("::").collect();
                let (name, modp) = segs.split_last().unwrap();
                let cands: Vec<&(Vec<String>, syn::Item)> =
                    sf.items.iter().filter(|(mp, it)| item_ident(it).as_deref() == Some(*name) && path_suffix_matches(mp, modp)).collect();
                if cands.len() != 1 {
                    die(2, &format!("LOST-ANCHOR unit={} item={} in {}: {} candidates (overlay line {})", unit, path, srcname, cands.len(), line));
                }
                let it = &cands[0].1;
                let (s, e) = brange(it);
                let mut edits: Vec<Edit> = vec![];
                let mut seq = 0usize;
                match it {
                    syn::Item::Struct(st) => {
                        attr_edits(&st.attrs, &rules, &sf.text, &mut edits, &mut seq);
                        vis_edit(&st.vis, st.struct_token.span.byte_range().start, &rules, &mut edits, &mut seq);
                        for f in st.fields.iter() {
                            attr_edits(&f.attrs, &rules, &sf.text, &mut edits, &mut seq);
                            vis_edit(&f.vis, f.ident.as_ref().map(|i| i.span().byte_range().start).unwrap_or_else(|| brange(&f.ty).0), &rules, &mut edits, &mut seq);
                        }
                        for sec in extra.iter() {
                            if sec.kind == "fields" {
                                if let syn::Fields::Named(n) = &st.fields {
                                    let close = n.brace_token.span.close().byte_range().start;
                                    seq += 1;
                                    edits.push(Edit { pos: close, end: close, text: sec.text.clone(), rule: String::new(), kept: vec![], oline: sec.line, seq });
                                }
                            } else if sec.kind == "before" || sec.kind == "sig" {
                                seq += 1;
                                edits.push(Edit { pos: s, end: s, text: sec.text.clone(), rule: String::new(), kept: vec![], oline: sec.line, seq: 0 });
                            }
                        }
                    }
                    syn::Item::Enum(en) => {
                        attr_edits(&en.attrs, &rules, &sf.text, &mut edits, &mut seq);
                        vis_edit(&en.vis, en.enum_token.span.byte_range().start, &rules, &mut edits, &mut seq);
                        for v in en.variants.iter() {
                            attr_edits(&v.attrs, &rules, &sf.text, &mut edits, &mut seq);
                        }
                        for sec in extra.iter() {
                            if sec.kind == "before" || sec.kind == "sig" {
                                edits.push(Edit { pos: s, end: s, text: sec.text.clone(), rule: String::new(), kept: vec![], oline: sec.line, seq: 0 });
                            }
                        }
                    }
                    _ => {}
                }
                raw_ident_edits(quote::ToTokens::to_token_stream(it), &rules, &mut edits, &mut seq);
                let l0 = em.line;
                item_no += 1;
                em.push(&format!("/*@I{}{{*/", item_no), "G", 0);
                emit_with_edits(&mut em, sf, s, e, &mut edits, &overlay_name, &mut rw_log, &mut rw_counter);
                em.push(&format!("/*@I{}}}*/", item_no), "G", 0);
                em.push("\n\n", "G", 0);
                item_log.push(format!(
                    "{{\"kind\":\"item\",\"no\":{},\"path\":{},\"file\":{},\"byte_start\":{},\"byte_end\":{},\"line_start\":{},\"line_end\":{},\"gen_line_start\":{},\"gen_line_end\":{}}}",
                    item_no, jesc(path), jesc(&srcname), s, e, sf.line_of(s), sf.line_of(e), l0, em.line
                ));
            }
            Dir::Fn(fd) => {
                if !in_verus {
                    em.push("verus! {\n\n", "G", 0);
                    in_verus = true;
                }
                let srcname = cur_src.clone().unwrap_or_else(|| die(2, "OVERLAY-SYNTAX @@fn before @@source"));
                let sf = files.get(&srcname).unwrap();
                let segs: Vec<&str> = fd.path.split("::").collect();
                // forms: [mods..]::Type::name   or   [mods..]::name (free fn)
                let mut found: Vec<(Option<usize>, Vec<syn::Attribute>, syn::Visibility, syn::Signature, syn::Block, (usize, usize))> = vec![];
                let name = *segs.last().unwrap();
                for (idx, (mp, it)) in sf.items.iter().enumerate() {
                    match it {
                        syn::Item::Impl(im) if segs.len() >= 2 => {
                            let ty = segs[segs.len() - 2];
                            let (tyname, want_trait) = match ty.split_once('@') {
                                Some((t, tr)) => (t, Some(tr)),
                                None => (ty, None),
                            };
                            let modp = &segs[..segs.len() - 2];
                            if type_last_ident(&im.self_ty).as_deref() != Some(tyname) || !path_suffix_matches(mp, modp) {
                                continue;
                            }
                            let trait_name = im.trait_.as_ref().and_then(|(_, p, _)| p.segments.last().map(|s| s.ident.to_string()));
                            if trait_name.as_deref() != want_trait {
                                continue;
                            }
                            for ii in im.items.iter() {
                                if let syn::ImplItem::Fn(f) = ii {
                                    if f.sig.ident == name {
                                        found.push((Some(idx), f.attrs.clone(), f.vis.clone(), f.sig.clone(), f.block.clone(), brange(f)));
                                    }
                                }
                            }
                        }
                        syn::Item::Fn(f) => {
                            let modp = &segs[..segs.len() - 1];
                            if f.sig.ident == name && path_suffix_matches(mp, modp) && (segs.len() == 1 || !modp.is_empty()) {
                                found.push((None, f.attrs.clone(), f.vis.clone(), f.sig.clone(), (*f.block).clone(), brange(f)));
                            }
                        }
                        _ => {}
                    }
                }
                if found.is_empty() && segs.len() >= 2 {
                    // nested fn item: [mods..]::[Type::]outer::name  (rule R16 removes it from the body of `outer`)
                    let outer = segs[segs.len() - 2];
                    let mut blocks: Vec<syn::Block> = vec![];
                    for (mp, it) in sf.items.iter() {
                        match it {
                            syn::Item::Impl(im) if segs.len() >= 3 => {
                                let ty = segs[segs.len() - 3];
                                if type_last_ident(&im.self_ty).as_deref() != Some(ty) || !path_suffix_matches(mp, &segs[..segs.len() - 3]) {
                                    continue;
                                }
                                for ii in im.items.iter() {
                                    if let syn::ImplItem::Fn(f) = ii {
                                        if f.sig.ident == outer {
                                            blocks.push(f.block.clone());
                                        }
                                    }
                                }
                            }
                            syn::Item::Fn(f) if f.sig.ident == outer && path_suffix_matches(mp, &segs[..segs.len() - 2]) => blocks.push((*f.block).clone()),
                            _ => {}
                        }
                    }
                    for b in blocks.iter() {
                        for st in b.stmts.iter() {
                            if let syn::Stmt::Item(syn::Item::Fn(f)) = st {
                                if f.sig.ident == name {
                                    found.push((None, f.attrs.clone(), f.vis.clone(), f.sig.clone(), (*f.block).clone(), brange(f)));
                                }
                            }
                        }
                    }
                }
                if found.len() != 1 {
                    die(2, &format!("LOST-ANCHOR unit={} fn={} in {}: {} candidates (overlay line {})", unit, fd.path, srcname, found.len(), fd.line));
                }
                let (impl_idx, attrs, vis, sig, block, (fs, fe)) = found.pop().unwrap();

                // impl header handling
                match impl_idx {
                    Some(idx) => {
                        let same = matches!(&open_impl, Some((f, i)) if *f == srcname && *i == idx);
                        if !same {
                            close_impl(&mut em, &mut open_impl);
                            if let syn::Item::Impl(im) = &sf.items[idx].1 {
                                let (is, _) = brange(im);
                                // skip outer attributes of the impl: start at `impl` keyword
                                let kw = im.impl_token.span.byte_range().start;
                                let _ = is;
                                let open = im.brace_token.span.open().byte_range().start;
                                em.push(&sf.text[kw..open + 1], &format!("S:{}", sf.rel), sf.line_of(kw));
                                em.push("\n", "G", 0);
                                // overlay text placed at the start of the impl block (e.g. spec functions a trait impl must provide)
                                for sec in fd.sections.iter().filter(|s| s.kind == "impl-begin") {
                                    em.push("/*@+*/", "G", 0);
                                    em.push(&sec.text, &format!("O:{}", overlay_name), sec.line);
                                    em.push("/*@-*/\n", "G", 0);
                                }
                                // associated types / consts of the impl block come along verbatim
                                for ii in im.items.iter() {
                                    if let syn::ImplItem::Type(_) | syn::ImplItem::Const(_) = ii {
                                        if im.trait_.is_some() || matches!(ii, syn::ImplItem::Type(_)) {
                                            let (a, b) = brange(ii);
                                            em.push(&sf.text[a..b], &format!("S:{}", sf.rel), sf.line_of(a));
                                            em.push("\n", "G", 0);
                                        }
                                    }
                                }
                                item_log.push(format!(
                                    "{{\"kind\":\"impl-header\",\"file\":{},\"byte_start\":{},\"byte_end\":{},\"line_start\":{}}}",
                                    jesc(&srcname), kw, open + 1, sf.line_of(kw)
                                ));
                            }
                            open_impl = Some((srcname.clone(), idx));
                        }
                    }
                    None => close_impl(&mut em, &mut open_impl),
                }

                let mut scan = FnScan { depth: 0, block_counter: 0, src: &sf.text, stmts: vec![], closures: vec![], edits: vec![], rules: &rules, seq: 1000 };
                let body_open = block.brace_token.span.open().byte_range().start;
                let body_close = block.brace_token.span.close().byte_range().start;
                if !fd.trusted {
                    scan.visit_block(&block);
                }
                let mut edits = std::mem::take(&mut scan.edits);
                let stmts = std::mem::take(&mut scan.stmts);
                let closures = std::mem::take(&mut scan.closures);
                let mut seq = 0usize;
                // R12: `mut self` receiver (unsupported by Verus) -> `self` + `let mut this = self;`, `self` -> `this` in the body
                let mut_self = matches!(sig.receiver(), Some(r) if r.reference.is_none() && r.mutability.is_some());
                if mut_self && !fd.trusted {
                    let r = sig.receiver().unwrap();
                    let (rs, re) = brange(r);
                    edits.push(Edit { pos: rs, end: re, text: "self".into(), rule: "R12:mut-self".into(), kept: vec![], oline: 0, seq: 1 });
                    let bo = block.brace_token.span.open().byte_range().start;
                    edits.push(Edit { pos: bo + 1, end: bo + 1, text: " let mut this = self; ".into(), rule: "R12:mut-self".into(), kept: vec![], oline: 0, seq: 2 });
                    let mut toks = vec![];
                    self_tokens(quote::ToTokens::to_token_stream(&block), &mut toks);
                    for e in edits.iter_mut() {
                        if !e.rule.is_empty() && e.end > e.pos && e.pos > bo {
                            e.text = replace_word(&e.text, "self", "this");
                        }
                    }
                    let covered: Vec<(usize, usize)> = edits.iter().filter(|e| e.end > e.pos).map(|e| (e.pos, e.end)).collect();
                    for (a, b) in toks {
                        if covered.iter().any(|(x, y)| a >= *x && b <= *y) {
                            continue;
                        }
                        edits.push(Edit { pos: a, end: b, text: "this".into(), rule: "R12:mut-self".into(), kept: vec![], oline: 0, seq: 3 });
                    }
                }
                raw_ident_edits(quote::ToTokens::to_token_stream(&block), &rules, &mut edits, &mut seq);
                raw_ident_edits(quote::ToTokens::to_token_stream(&sig), &rules, &mut edits, &mut seq);
                attr_edits(&attrs, &rules, &sf.text, &mut edits, &mut seq);
                let in_trait_impl = match impl_idx {
                    Some(idx) => matches!(&sf.items[idx].1, syn::Item::Impl(im) if im.trait_.is_some()),
                    None => false,
                };
                if !in_trait_impl {
                    vis_edit(&vis, brange(&sig).0, &rules, &mut edits, &mut seq);
                }

                // statement table of the overlay (snippets recorded when the overlay was written) aligned with the
                // statements found now (longest common subsequence); edited-in-place statements are paired inside gaps
                let table: Vec<String> = fd
                    .sections
                    .iter()
                    .filter(|s| s.kind == "table")
                    .flat_map(|s| s.text.lines().map(|l| l.to_string()).collect::<Vec<_>>())
                    .filter_map(|l| {
                        let a = l.find('«')?;
                        let b = l.rfind('»')?;
                        Some(norm_str(&l[a + '«'.len_utf8()..b]))
                    })
                    .collect();
                let table_depth: Vec<usize> = fd
                    .sections
                    .iter()
                    .filter(|s| s.kind == "table")
                    .flat_map(|s| s.text.lines().map(|l| l.to_string()).collect::<Vec<_>>())
                    .filter(|l| l.contains('«'))
                    .map(|l| l.split_whitespace().find_map(|w| w.strip_prefix('d').and_then(|d| d.parse::<usize>().ok())).unwrap_or(1))
                    .collect();
                // old ordinal (0-based) -> (new index, exact?)   None = statement no longer present
                let mut align: Vec<Option<usize>> = vec![None; table.len()];
                let mut deleted_next: Vec<Option<usize>> = vec![None; table.len()];
                if !table.is_empty() {
                    let n = table.len();
                    let m = stmts.len();
                    let eq = |i: usize, j: usize| stmts[j].norm.starts_with(&table[i]);
                    let mut dp = vec![vec![0usize; m + 1]; n + 1];
                    for i in (0..n).rev() {
                        for j in (0..m).rev() {
                            dp[i][j] = if eq(i, j) { dp[i + 1][j + 1] + 1 } else { dp[i + 1][j].max(dp[i][j + 1]) };
                        }
                    }
                    let (mut i, mut j) = (0usize, 0usize);
                    let mut pairs: Vec<(usize, usize)> = vec![];
                    while i < n && j < m {
                        if eq(i, j) && dp[i][j] == dp[i + 1][j + 1] + 1 {
                            pairs.push((i, j));
                            i += 1;
                            j += 1;
                        } else if dp[i + 1][j] >= dp[i][j + 1] {
                            i += 1;
                        } else {
                            j += 1;
                        }
                    }
                    for (a, b) in pairs.iter() {
                        align[*a] = Some(*b);
                    }
                    // gaps: pair unmatched old with unmatched new in order (edited in place)
                    let mut bounds: Vec<(usize, usize)> = vec![];
                    let mut pa = 0usize;
                    let mut pb = 0usize;
                    for (a, b) in pairs.iter().cloned().chain(std::iter::once((n, m))) {
                        bounds.push((pa, pb));
                        let olds: Vec<usize> = (pa..a).collect();
                        let news: Vec<usize> = (pb..b).collect();
                        for (k, o) in olds.iter().enumerate() {
                            if k < news.len() {
                                align[*o] = Some(news[k]);
                            } else {
                                deleted_next[*o] = Some(b); // next surviving statement (may be == m: end of function)
                            }
                        }
                        pa = a + 1;
                        pb = b + 1;
                    }
                    let _ = pairs.len();
                }
                let count_same = fd.stmts.map(|n| n == stmts.len());
                // returns (index into stmts, deleted?)  — for a deleted statement the index is the next surviving one
                let resolve2 = |sec: &Section| -> (usize, bool) {
                    let k = sec.ord;
                    if !table.is_empty() {
                        if k >= 1 && k <= table.len() {
                            if let Some(j) = align[k - 1] {
                                return (j, false);
                            }
                            let _ = &deleted_next;
                            // deleted statement: go to the end of the previous sibling (same block), else to the start of the next sibling
                            let d = table_depth[k - 1];
                            let mut p = k - 1;
                            while p > 0 {
                                p -= 1;
                                if table_depth[p] == d {
                                    if let Some(j) = align[p] {
                                        return (j, true); // "after j"
                                    }
                                    break;
                                }
                            }
                            let mut q = k;
                            while q < table.len() {
                                if table_depth[q] == d {
                                    if let Some(j) = align[q] {
                                        return (j + 1_000_000, true); // "before j"
                                    }
                                    break;
                                }
                                q += 1;
                            }
                        }
                        die(2, &format!("LOST-ANCHOR unit={} fn={} anchor=@{} {} (overlay line {}): statement no longer present and nothing follows it", unit, fd.path, sec.kind, sec.ord, sec.line));
                    }
                    let want = norm_str(&sec.snippet);
                    if k >= 1 && k <= stmts.len() && (want.is_empty() || stmts[k - 1].norm.starts_with(&want)) {
                        return (k - 1, false);
                    }
                    if !want.is_empty() {
                        let hits: Vec<usize> = stmts.iter().enumerate().filter(|(_, s)| s.norm.starts_with(&want)).map(|(i, _)| i).collect();
                        if hits.len() == 1 {
                            return (hits[0], false);
                        }
                    }
                    if count_same == Some(true) && k >= 1 && k <= stmts.len() {
                        return (k - 1, false); // statement edited in place
                    }
                    die(
                        2,
                        &format!(
                            "LOST-ANCHOR unit={} fn={} anchor=@{} {} «{}» (overlay line {}): statement not found (fn has {} statements, overlay recorded {:?})",
                            unit, fd.path, sec.kind, sec.ord, sec.snippet, sec.line, stmts.len(), fd.stmts
                        ),
                    )
                };
                // insertion position for @before / @after anchors
                let resolve_pos = |sec: &Section| -> (usize, bool) {
                    let (j, deleted) = resolve2(sec);
                    if deleted {
                        if j >= 1_000_000 {
                            (stmts[j - 1_000_000].start, false)
                        } else {
                            (stmts[j].end, true)
                        }
                    } else if sec.kind == "after" {
                        (stmts[j].end, true)
                    } else {
                        (stmts[j].start, false)
                    }
                };
                let resolve = |sec: &Section| -> usize {
                    let (j, deleted) = resolve2(sec);
                    if deleted && sec.kind != "before" && sec.kind != "after" {
                        die(2, &format!("LOST-ANCHOR unit={} fn={} anchor=@{} {} (overlay line {}): the loop is no longer present", unit, fd.path, sec.kind, sec.ord, sec.line));
                    }
                    j
                };

                if let Some(r) = &fd.ret {
                    if let syn::ReturnType::Type(_, ty) = &sig.output {
                        let (ts, te) = brange(&**ty);
                        seq += 1;
                        edits.push(Edit { pos: ts, end: ts, text: format!("({}: ", r), rule: String::new(), kept: vec![], oline: fd.line, seq });
                        seq += 1;
                        edits.push(Edit { pos: te, end: te, text: ")".into(), rule: String::new(), kept: vec![], oline: fd.line, seq });
                    } else {
                        die(2, &format!("LOST-ANCHOR unit={} fn={} @ret given but function has no return type", unit, fd.path));
                    }
                }
                for sec in fd.sections.iter() {
                    seq += 1;
                    let mk = |pos: usize, text: String, seq: usize| Edit { pos, end: pos, text, rule: String::new(), kept: vec![], oline: sec.line, seq };
                    match sec.kind.as_str() {
                        "sig" => edits.push(mk(body_open, format!("\n{}", sec.text), seq)),
                        "attr" => edits.push(mk(fs, sec.text.clone(), 0)),
                        "entry" => edits.push(mk(body_open + 1, format!("\n{}", sec.text), seq + 500)),
                        "exit" => edits.push(mk(body_close, sec.text.clone(), seq)),
                        "before" | "after" => {
                            let (pos, after_style) = resolve_pos(sec);
                            if after_style {
                                edits.push(mk(pos, format!("\n{}", sec.text), seq + 2000));
                            } else {
                                edits.push(mk(pos, sec.text.clone(), seq));
                            }
                        }
                        "iter" => {
                            let k = resolve(sec);
                            let pos = stmts[k].for_expr.unwrap_or_else(|| {
                                die(2, &format!("LOST-ANCHOR unit={} fn={} anchor=@iter {} (overlay line {}): statement is not a for loop", unit, fd.path, sec.ord, sec.line))
                            });
                            edits.push(mk(pos, format!("{}: ", sec.arg.trim()), seq));
                        }
                        "inv" | "body-begin" | "body-end" => {
                            let k = resolve(sec);
                            let (o, c) = stmts[k].loop_body.unwrap_or_else(|| {
                                die(2, &format!("LOST-ANCHOR unit={} fn={} anchor=@{} {} (overlay line {}): statement is not a loop", unit, fd.path, sec.kind, sec.ord, sec.line))
                            });
                            match sec.kind.as_str() {
                                "inv" => edits.push(mk(o, format!("\n{}", sec.text), seq)),
                                "body-begin" => edits.push(mk(o + 1, format!("\n{}", sec.text), seq)),
                                _ => edits.push(mk(c, sec.text.clone(), seq)),
                            }
                        }
                        "closure" => {
                            if sec.ord < 1 || sec.ord > closures.len() {
                                die(2, &format!("LOST-ANCHOR unit={} fn={} anchor=@closure {} (overlay line {}): function has {} closures", unit, fd.path, sec.ord, sec.line, closures.len()));
                            }
                            let c = &closures[sec.ord - 1];
                            if c.has_ret {
                                die(2, &format!("LOST-ANCHOR unit={} fn={} closure {} already has a return type", unit, fd.path, sec.ord));
                            }
                            edits.push(mk(c.body_start, format!("-> ({}) ensures {} {{ ", sec.arg, sec.text.trim()), seq));
                            edits.push(mk(c.body_end, " }".to_string(), seq + 1));
                        }
                        _ => {}
                    }
                }

                let l0 = em.line;
                item_no += 1;
                if vacuity && !fd.trusted {
                    // vacuity probe: an unprovable assertion at function entry and at the start of every loop body
                    edits.push(Edit { pos: body_open + 1, end: body_open + 1, text: " proof { assert(false); } ".into(), rule: String::new(), kept: vec![], oline: 0, seq: 900_000 });
                    let covered: Vec<(usize, usize)> = edits.iter().filter(|e| e.end > e.pos).map(|e| (e.pos, e.end)).collect();
                    for st in stmts.iter() {
                        if let Some((o, _)) = st.loop_body {
                            // a loop that a rewrite replaced as a whole (R17) has no body in the generated text
                            if covered.iter().any(|(a, b)| o + 1 > *a && o + 1 < *b) {
                                continue;
                            }
                            edits.push(Edit { pos: o + 1, end: o + 1, text: " proof { assert(false); } ".into(), rule: String::new(), kept: vec![], oline: 0, seq: 900_001 });
                        }
                    }
                }
                if fd.trusted {
                    // signature verbatim, contract from overlay, body replaced
                    em.push("/*@+*/#[verifier::external_body]/*@-*/\n", "G", 0);
                    em.push(&format!("/*@I{}{{*/", item_no), "G", 0);
                    let mut sig_edits: Vec<Edit> = edits.into_iter().filter(|e| e.end <= body_open).collect();
                    emit_with_edits(&mut em, sf, fs, body_open, &mut sig_edits, &overlay_name, &mut rw_log, &mut rw_counter);
                    em.push(&format!("/*@I{}}}*/", item_no), "G", 0);
                    em.push("/*@T{*/{ unimplemented!() }/*@T}*/\n\n", "G", 0);
                } else {
                    em.push(&format!("/*@I{}{{*/", item_no), "G", 0);
                    emit_with_edits(&mut em, sf, fs, fe, &mut edits, &overlay_name, &mut rw_log, &mut rw_counter);
                    em.push(&format!("/*@I{}}}*/", item_no), "G", 0);
                    em.push("\n\n", "G", 0);
                }
                let stmt_json: Vec<String> = stmts.iter().enumerate().map(|(i, s)| format!("[{},{},{},{}]", i + 1, sf.line_of(s.start), jesc(&snippet_of(&s.norm)), s.depth)).collect();
                item_log.push(format!(
                    "{{\"kind\":\"fn\",\"no\":{},\"path\":{},\"trusted\":{},\"props\":[{}],\"file\":{},\"byte_start\":{},\"byte_end\":{},\"body_open\":{},\"line_start\":{},\"line_end\":{},\"gen_line_start\":{},\"gen_line_end\":{},\"n_stmts\":{},\"n_closures\":{},\"stmts\":[{}]}}",
                    item_no, jesc(&fd.path), fd.trusted, fd.props.iter().map(|p| jesc(p)).collect::<Vec<_>>().join(","), jesc(&srcname), fs, fe, body_open,
                    sf.line_of(fs), sf.line_of(fe), l0, em.line, stmts.len(), closures.len(), stmt_json.join(",")
                ));
            }
        }
    }
    close_impl(&mut em, &mut open_impl);
    if in_verus {
        em.push("\n} // verus!\n", "G", 0);
    }
    em.push("fn main() {}\n", "G", 0);

    std::fs::write(&outp, &em.out).unwrap_or_else(|e| die(2, &format!("cannot write {}: {}", outp, e)));
    let lm: Vec<String> = em.linemap.iter().map(|(g, o, l, c)| format!("[{},{},{},{}]", g, jesc(o), l, c)).collect();
    let rep = format!(
        "{{\"unit\":{},\"overlay\":{},\"items\":[\n{}\n],\"rewrites\":[\n{}\n],\"linemap\":[{}]}}\n",
        jesc(&unit), jesc(&overlay_path), item_log.join(",\n"), rw_log.join(",\n"), lm.join(",")
    );
    std::fs::write(&repp, rep).unwrap_or_else(|e| die(2, &format!("cannot write {}: {}", repp, e)));
    println!("vx: unit={} items={} rewrites={} lines={}", unit, item_log.len(), rw_log.len(), em.line);
}
