"""Self-mutation pack (thorough tier): fixed semantic edits that must each fail a named obligation, and equivalent edits
that must keep the unit green. Measures on every thorough run that the contracts are still tight and not brittle.
Results are reported under coverage.mutation_pack; they are not part of the proof count and never change the verdict."""
import os, re, shutil, subprocess, tempfile, json

CQ = "des-cqueue/src/stable/mod.rs"
RT = "des/src/runtime/mod.rs"
LIM = "des/src/runtime/limit.rs"
ES = "des/src/runtime/event/event_set.rs"
PR = "des/src/net/processing.rs"
CH = "des/src/net/channel.rs"
BLD = "des/src/runtime/builder.rs"
MT = "des/src/net/runtime/mod.rs"
TP = "des/src/net/topology.rs"
EV = "des/src/net/runtime/events.rs"
CTX = "des/src/net/runtime/ctx.rs"
UW = "des/src/net/runtime/unwind.rs"
YM = "des-net-utils/src/props/yaml.rs"
ND = "des-net-utils/src/ndl/def.rs"
NM = "des-net-utils/src/ndl/mod.rs"
DN = "des/src/net/ndl/mod.rs"

# (id, property, file, regex, replacement, expectation)   expectation: "kill" (exit 1 expected) | "keep" (exit 0 expected)
PACK = [
    ("cq-scan-window", "C01", CQ, r"if min > self\.t1 \{", "if min > self.t0 {", "kill"),
    ("cq-head-step", "C01", CQ, r"self\.head = \(self\.head \+ 1\) % self\.n;", "self.head = (self.head + 2) % self.n;", "kill"),
    ("cq-no-tcurrent", "C02", CQ, r"\n            self\.t_current = min;", "", "kill"),
    ("cq-index-div", "C01", CQ, r"let index = time_mod / self\.t_nanos;", "let index = time_mod / (self.t_nanos + 1);", "kill"),
    ("cq-guard-t0", "C02", CQ, r"time >= self\.t_current,", "time >= self.t0,", "kill"),
    ("cq-len-missing", "C01", CQ, r"\n        self\.len \+= 1;", "", "kill"),
    ("cq-id-reuse", "C03", CQ, r"self\.event_id = id\.wrapping_add\(1\);\n\n            EventHandle", "self.event_id = id;\n\n            EventHandle", "kill"),
    ("cq-cancel-zero-only", "C01", CQ, r"                    return;\n                \}\n            \}", "                }\n                return;\n            }", "kill"),
    ("eq-peek-back", "C10", CQ, r"if let Some\(\(_, time, _\)\) = self\.zero_event_bucket\.front\(\) \{", "if let Some((_, time, _)) = self.zero_event_bucket.back() {", "keep"),  # all entries of the zero bucket carry the same time
    ("mt-depth-ge", "C12", MT, r"self\.modules\[pos\]\.path\.len\(\) > parent_depth", "self.modules[pos].path.len() >= parent_depth", "kill"),
    ("mt-no-skip", "C12", MT, r"                pos \+= 1;\n\n                // \(iter as long", "                pos += 0;\n\n                // (iter as long", "kill"),
    ("lc-end-early-return", "C12", MT, r"if !rt\.app\.error\.is_empty\(\) \{\n            return Err\(error\);", "if !error.is_empty() {\n            return Err(error);", "kill"),
    ("lc-stage-le", "C12", MT, r"if stage < module\.num_sim_start_stages\(\) \{", "if stage <= module.num_sim_start_stages() {", "kill"),
    ("lc-skip-stage0", "C12", MT, r"for stage in 0\.\.max_stage \{", "for stage in 1..max_stage {", "kill"),
    ("eq-lc-hoist-n", "C12", MT, r"(                // Use cloned handles to appease the brwchk\n)                if stage < module\.num_sim_start_stages\(\) \{", r"\1                let declared = module.num_sim_start_stages();\n                if stage < declared {", "keep"),
    ("eq-mt-position", "C12", MT, r"\.rposition\(\|m\| m\.path == parent\)", ".position(|m| m.path == parent)", "keep"),  # paths are unique
    ("es-start-ignored", "C02", ES, r"start_time: options\.start_time,", "start_time: SimTime::MIN,", "kill"),
    ("lim-count-ge", "C11", LIM, r"Self::EventCount\(e\) => itr_count > \*e,", "Self::EventCount(e) => itr_count >= *e,", "kill"),
    ("lim-and-or", "C11", LIM, r"lhs\.applies\(itr_count, time\) && rhs\.applies\(itr_count, time\)", "lhs.applies(itr_count, time) || rhs.applies(itr_count, time)", "kill"),
    ("lim-add-and", "C11", LIM, r"\*self = Self::CombinedOr\(", "*self = Self::CombinedAnd(", "kill"),
    ("rt-itr-plus0", "C10", RT, r"if self\.limit\.applies\(self\.itr \+ 1, time\) \{", "if self.limit.applies(self.itr, time) {", "kill"),
    ("rt-no-setnow", "C02", RT, r"\n        SimTime::set_now\(time\);", "", "kill"),
    ("rt-limit-not-restored", "C10", RT, r"(mem::swap\(&mut self\.limit, &mut limit\);\n        self\.dispatch_all\(\);\n)        self\.limit = limit;\n\n        false\n    \}\n\n    /// Executes runtime events until the runtime reaches", r"\1\n        false\n    }\n\n    /// Executes runtime events until the runtime reaches", "kill"),
    ("rt-finish-no-drain", "C11", RT, r"while !self\.future_event_set\.is_empty\(\) \{\n                let event_frame", "if !self.future_event_set.is_empty() {\n                let event_frame", "kill"),
    ("bld-max-itr-time", "C11", BLD, r"self\.limit\.add\(RuntimeLimit::EventCount\(max_itr\)\);", "self.limit = RuntimeLimit::EventCount(max_itr);", "kill"),
    ("pr-upstream-rev", "C14", PR, r"for i in 0\.\.self\.stack\.items\.len\(\) \{", "for i in (0..self.stack.items.len()).rev() {", "kill"),
    ("pr-end-skip-first", "C14", PR, r"            self\.stack\.items\[i\]\.event_end\(\);", "            if i > 0 { self.stack.items[i].event_end(); }", "kill"),
    ("ch-limit-ge", "C07", CH, r"msg\.length\(\) > limit\.unwrap_or\(usize::MAX\)", "msg.length() >= limit.unwrap_or(usize::MAX)", "kill"),
    ("ch-lifo", "C07", CH, r"self\.packets\.push_back\(\(msg, con\)\);", "self.packets.push_front((msg, con));", "kill"),
    ("cs-flip-busy", "C07", CH, r"        if chan\.busy \{\n            let ChannelInner \{\n                metrics, buffer", "        if !chan.busy {\n            let ChannelInner {\n                metrics, buffer", "kill"),
    ("cs-no-mark", "C07", CH, r"                self\.set_busy_until\(transmissin_finish\);\n", "", "kill"),
    ("cs-exit-at-busy", "C07", CH, r"let next_event_time = SimTime::now\(\) \+ dur;", "let next_event_time = SimTime::now() + busy;", "kill"),
    ("cs-unbusy-at-dur", "C07", CH, r"let transmissin_finish = SimTime::now\(\) \+ busy;", "let transmissin_finish = SimTime::now() + dur;", "kill"),
    ("cs-zero-test-flip", "C07", CH, r"if busy != Duration::ZERO \{", "if busy == Duration::ZERO {", "kill"),
    ("cs-no-unbusy-notif", "C07", CH, r"(                self\.set_busy_until\(transmissin_finish\);\n)\n                sink\.add\(\n                    NetEvents::ChannelUnbusyNotif\(ChannelUnbusyNotif \{\n                        channel: self\.clone\(\),\n                    \}\),\n                    transmissin_finish,\n                \);\n", r"\1", "kill"),
    ("eq-cs-is-zero", "C07", CH, r"if busy != Duration::ZERO \{", "if !busy.is_zero() {", "keep"),
    ("eq-cs-swap-calc", "C07", CH, r"(            let dur = metrics\.calculate_duration\(&msg, rng_ref\);\n)(            let busy = metrics\.calculate_busy\(&msg\);\n)", r"\2\1", "keep"),
    ("cfg-prefix-bare", "C17", YM, r"k\[key\.len\(\)\.\.\]\.starts_with\('\.'\)", "k.len() > key.len()", "kill"),
    ("cfg-no-any-skip", "C17", YM, r"if k\.contains\(ANY\) \|\| is_compartment\(v\) \{", "if is_compartment(v) {", "kill"),
    ("cfg-compartment-as-entry", "C17", YM, r"                if is_compartment\(entry\) \{\n                    continue;\n                \}\n", "", "kill"),
    ("cfg-compartment-as-plain-entry", "C17", YM, r"if k\.contains\(ANY\) \|\| is_compartment\(v\) \{", "if k.contains(ANY) {", "kill"),
    ("cfg-dot-at-wrong-index", "C17", YM, r"if i != 0 \{", "if i != 1 {", "kill"),
    ("cfg-wrong-rest", "C17", YM, r"self\.update_from\(entry, &path\[\(i \+ 1\)\.\.\]\);", "self.update_from(entry, &path[1..]);", "kill"),
    ("cfg-no-wildcard-step", "C17", YM, r"            if let Some\(value\) = map\.get\(ANY\) \{\n                self\.update_from\(value, &path\[1\.\.\]\);\n            \}\n", "", "kill"),
    ("cfg-split-any-node", "C17", YM, r"k\.contains\(ANY\) && \*k != ANY", "k.contains(ANY)", "kill"),
    ("cfg-name-keeps-dot", "C17", YM, r"&matching_key\[\(key\.len\(\) \+ 1\)\.\.\]", "&matching_key[key.len()..]", "kill"),
    ("cfg-first-prefix-only", "C17", YM, r"(                self\.update_from\(entry, &path\[\(i \+ 1\)\.\.\]\);\n)", r"\1                break;\n", "kill"),
    ("eq-cfg-len-and-dot", "C17", YM, r"k\.starts_with\(&key\) && k\[key\.len\(\)\.\.\]\.starts_with\('\.'\)", "k.starts_with(&key) && k.len() > key.len() && k[key.len()..].starts_with('.')", "keep"),
    ("eq-cfg-if-not-any", "C17", YM, r"                    if k\.contains\(ANY\) \|\| is_compartment\(v\) \{\n                        continue;\n                    \}\n                    self\.set\(k\.clone\(\), v\.clone\(\)\);\n", "                    if !(k.contains(ANY) || is_compartment(v)) {\n                        self.set(k.clone(), v.clone());\n                    }\n", "keep"),
    ("ndl-paren-assert", "C18", ND, r"        if !rem\.ends_with\('\)'\) \{\n            return Err\(format!\(\"invalid type clause '\{s\}': missing closing parenthesis\"\)\);\n        \}\n", "        assert!(rem.ends_with(')'));\n", "kill"),
    ("ndl-generic-arg-assert", "C18", NM, r"            if !replacement_deps\.is_empty\(\) \{\n                return Err\(\n                    ErrorKind::InvalidTypStatement\(typ\.clone\(\), replacement_deps\.clone\(\)\)\.into\(\),\n                \);\n            \}\n", "            assert!(replacement_deps.is_empty());\n", "kill"),
    ("ndl-binding-expect", "C18", NM, r"        let Some\(\(node, req_args\)\) = nodes\.get\(&typ\.ident\) else \{\n            return Err\(ErrorKind::UnknownModule\(typ\.ident\.clone\(\)\)\.into\(\)\);\n        \};\n", "        let (node, req_args) = nodes.get(&typ.ident).expect(\"parse order\");\n", "kill"),
    ("ndl-index-le", "C18", NM, r"\(Cluster\(n\), Cluster\(i\)\) if i < n =>", "(Cluster(n), Cluster(i)) if i <= n =>", "kill"),
    ("ndl-cluster-from-one", "C18", NM, r"\(Cluster\(n\), Atom\) => Ok\(Box::new\(\(0\.\.n\)", "(Cluster(n), Atom) => Ok(Box::new((1..n)", "kill"),
    ("ndlsim-cluster-from-one", "C18", DN, r"for k in 0\.\.n \{", "for k in 1..n {", "kill"),
    ("ndlsim-gate-index-default", "C18", DN, r"accessor\.index\.unwrap_or\(0\)", "accessor.index.unwrap_or(1)", "kill"),
    ("ndlsim-connections-before-children", "C18", DN, r"(        for gate in &node\.gates \{\n            let _ = ctx\.create_gate_cluster\(&gate\.ident, gate\.kardinality\.as_size\(\)\);\n        \}\n)", r"\1        let skip_last = node.connections.len().saturating_sub(1);\n        let _ = skip_last;\n", "keep"),
    ("ndl-bracket-unwrap", "C18", ND, r"\.ok_or\(\"invalid syntax: expected opening bracket\"\)\?;", ".expect(\"opening bracket\");", "kill"),
    ("ndl-cluster-size-unwrap", "C18", ND, r"cluster\.parse::<usize>\(\)\.map_err\(\|e\| e\.to_string\(\)\)\?", "cluster.parse::<usize>().unwrap()", "kill"),
    ("eq-ndl-trim-first", "C18", ND, r"(        if !rem\.ends_with\('\)'\) \{\n            return Err\(format!\(\"invalid type clause '\{s\}': missing closing parenthesis\"\)\);\n        \}\n)(        let rem = rem\.trim_end_matches\('\)'\);\n)", r"\1\n\2", "keep"),
    ("tp-any-ne", "C19", TP, r"\.any\(\|edge\| edge\.dst == src\)", ".any(|edge| edge.dst != src)", "kill"),
    ("tp-visit-self", "C19", TP, r"visit\(topo, edge\.dst, visited\);", "visit(topo, i, visited);", "kill"),
    ("tp-skip-node0", "C19", TP, r"for start in 0\.\.self\.nodes\.len\(\) \{", "for start in 1..self.nodes.len() {", "kill"),
    ("tp-no-push", "C19", TP, r"                visited\.push\(i\);\n", "", "kill"),
    ("tp-bidir-early-true", "C19", TP, r"(\.any\(\|edge\| edge\.dst == src\) \{\n\s*return false;\n\s*\}\n\s*\}\n)", r"\1            return true;\n", "kill"),
    ("eq-tp-len-lt", "C19", TP, r"if visited\.len\(\) != self\.nodes\.len\(\) \{", "if visited.len() < self.nodes.len() {", "keep"),  # a duplicate-free list of node indices never exceeds the node count
    ("eq-tp-bundle-index", "C19", TP, r"for edge in bundle \{", "for edge in &self.edges[src] {", "keep"),
    ("gw-active-next", "C08", EV, r"            if !cur\.endpoint\.owner\(\)\.is_active\(\) \{", "            if !next.endpoint.owner().is_active() {", "kill"),
    ("gw-chan-cur", "C08", EV, r"if let Some\(ch\) = next\.channel\(\) \{", "if let Some(ch) = cur.channel() {", "kill"),
    ("gw-no-lastgate", "C08", EV, r"            msg\.header\.last_gate = Some\(next\.endpoint\.clone\(\)\);\n", "", "kill"),
    ("gw-deliver-next-to-last", "C08", EV, r"(            // No channel means next hop is on the same time slot,\n            // so continue\.\n)            cur = next;", r"\1            if next.next_hop().is_none() { break; }\n            cur = next;", "kill"),
    ("eq-gw-clone", "C08", EV, r"(            // so continue\.\n)            cur = next;", r"\1            cur = next.clone();", "keep"),
    ("sd-reset-twice", "C09", CTX, r"        rt\.app\.error\.extend\(module\.reset\(\)\.err\(\)\);", "        rt.app.error.extend(module.reset().err());\n        rt.app.error.extend(module.reset().err());", "kill"),
    ("sd-no-restart", "C09", CTX, r"        if let Some\(restart\) = restart \{", "        if let Some(restart) = None::<SimTime> {", "kill"),
    ("sd-drop-on-next-owner", "C09", EV, r"            if !cur\.endpoint\.owner\(\)\.is_active\(\) \{", "            if !next.endpoint.owner().is_active() {", "kill"),
    ("eq-sd-rename", "C09", CTX, r"        if let Some\(restart\) = restart \{\n            rt\.add_event\(\n                NetEvents::ModuleRestartEvent\(ModuleRestartEvent \{\n                    module: module\.clone\(\),\n                \}\),\n                restart,", "        if let Some(at) = restart {\n            rt.add_event(\n                NetEvents::ModuleRestartEvent(ModuleRestartEvent {\n                    module: module.clone(),\n                }),\n                at,", "keep"),
    ("pf-catch-inverted", "C13", UW, r"if !self\.ctx\.stereotyp\.get\(\)\.on_panic_catch \{", "if self.ctx.stereotyp.get().on_panic_catch {", "kill"),
    ("pf-end-always-ok", "C13", MT, r"        if error\.is_empty\(\) \{\n            Ok\(\(\)\)", "        if error.is_empty() || true {\n            Ok(())", "kill"),
    ("pf-start-error-dropped", "C13", MT, r"                    rt\.app\.error\.extend\(module\.at_sim_start\(stage\)\.err\(\)\);", "                    let _ = module.at_sim_start(stage);", "kill"),
    ("eq-pf-catch-nested", "C13", UW, r"            if !self\.ctx\.stereotyp\.get\(\)\.on_panic_catch \{\n                return Err\(PanicError \{\n                    path: self\.ctx\.path\(\),\n                    payload: unwind,\n                \}\);\n            \}", "            let caught = self.ctx.stereotyp.get().on_panic_catch;\n            if !caught {\n                return Err(PanicError {\n                    path: self.ctx.path(),\n                    payload: unwind,\n                });\n            }", "keep"),
    # equivalent edits: must stay green
    ("eq-swap-t0-t1", "C01", CQ, r"                self\.t0 \+= self\.t;\n                self\.t1 \+= self\.t;\n            \}", "                self.t1 += self.t;\n                self.t0 += self.t;\n            }", "keep"),
    ("eq-extra-stmt", "C01", CQ, r"\n        self\.len \+= 1;", "\n        self.len += 1;\n        let _dbg = self.len;", "keep"),
    ("eq-head-wrap-if", "C01", CQ, r"self\.head = \(self\.head \+ 1\) % self\.n;", "self.head = if self.head + 1 == self.n { 0 } else { self.head + 1 };", "keep"),
    ("eq-le-after-guard", "C01", CQ, r"if time == self\.t_current \{", "if time <= self.t_current {", "keep"),
    ("eq-rename-local", "C10", RT, r"let \(event, time\) = self\.future_event_set\.fetch_next\(\);\n        self\.itr \+= 1;\n\n        // Let this be the only position where SimTime is changed\n        SimTime::set_now\(time\);", "let (event, at) = self.future_event_set.fetch_next();\n        self.itr += 1;\n\n        // Let this be the only position where SimTime is changed\n        SimTime::set_now(at);", "keep"),
    ("eq-itr-after-setnow", "C10", RT, r"        self\.itr \+= 1;\n\n        // Let this be the only position where SimTime is changed\n        SimTime::set_now\(time\);", "        // Let this be the only position where SimTime is changed\n        SimTime::set_now(time);\n        self.itr += 1;", "keep"),
    ("eq-take-msg", "C14", PR, r"if let Some\(existing_msg\) = msg \{", "if let Some(existing_msg) = msg.take() {", "keep"),
]

FILES = [CQ, RT, LIM, ES, PR, CH, BLD, MT, TP, YM, ND, NM, DN, "des/src/net/path.rs", "des/src/net/message/mod.rs", "des/src/net/message/header.rs", "des/src/net/message/body.rs", "des/src/time/mod.rs",
         "des/src/time/duration.rs", "des/src/macros/cfg.rs", "des/src/runtime/bench.rs", "des/src/runtime/event/types.rs", "des-cqueue/src/stable/linked_list.rs",
         "des-cqueue/src/stable/alloc.rs", "des-cqueue/src/stable/boxed.rs", "des-cqueue/Cargo.toml", "des-cqueue/src/lib.rs"]


def run_pack(root, repo, only_prop=None):
    """Each mutation is applied to ONE complete scratch copy of the tree (outside /repo and /verif, removed at the end), so that the
    bounded stand-ins can be built against it too (their cargo target directory is reused between mutations)."""
    res = {"applied": 0, "killed": 0, "survived": [], "kept_green": 0, "false_alarm": [], "undecided": [], "not_applicable": []}
    tmp = os.path.join("/var/tmp", "mutpack-tree-%d" % os.getpid())
    shutil.rmtree(tmp, ignore_errors=True)
    shutil.copytree(repo, tmp, ignore=shutil.ignore_patterns("target", ".git"))
    try:
        for mid, prop, f, pat, rep, exp in PACK:
            if only_prop and prop != only_prop:
                continue
            p = os.path.join(tmp, f)
            text = open(os.path.join(repo, f), encoding="utf8").read()
            new, n = re.subn(pat, rep, text, count=1)
            if n == 0:
                res["not_applicable"].append(mid)
                continue
            open(p, "w", encoding="utf8").write(new)
            try:
                env = dict(os.environ, VERIF_REPO=tmp, VERIF_TIER="quick", VERIF_NO_EVIDENCE="1", VERIF_KEEP_CACHE="1")
                r = subprocess.run([os.path.join(root, "check"), prop, "--tier", "quick"], cwd=root, env=env, stdout=subprocess.PIPE, stderr=subprocess.STDOUT)
            finally:
                open(p, "w", encoding="utf8").write(text)
            res["applied"] += 1
            if exp == "kill":
                if r.returncode == 1:
                    res["killed"] += 1
                elif r.returncode == 2:
                    res["undecided"].append(mid)
                else:
                    res["survived"].append(mid)
            else:
                if r.returncode == 0:
                    res["kept_green"] += 1
                elif r.returncode == 2:
                    res["undecided"].append(mid)
                else:
                    res["false_alarm"].append(mid)
    finally:
        shutil.rmtree(tmp, ignore_errors=True)
        # the stand-ins' build caches for the scratch tree
        try:
            import hashlib
            tag = hashlib.sha1(tmp.encode()).hexdigest()[:8]
            base = os.environ.get("VERIF_WORK", "/var/tmp/des-verif-work")
            for d in os.listdir(base):
                if d.endswith("-" + tag):
                    shutil.rmtree(os.path.join(base, d), ignore_errors=True)
        except Exception:
            pass
    return res


if __name__ == "__main__":
    import sys
    print(json.dumps(run_pack("/verif", "/repo", sys.argv[1] if len(sys.argv) > 1 else None), indent=1))
