#!/usr/bin/env python3
"""Regenerate the @stmts / @table sections of an overlay from the current /repo (run when the overlay is (re)written)."""
import sys, json, re, subprocess, tempfile, os
ov = sys.argv[1]
repo = os.environ.get("VERIF_REPO", "/repo")
root = os.path.dirname(os.path.dirname(os.path.abspath(__file__)))
src = open(ov, encoding="utf8").read()
# strip existing tables
lines = src.split("\n")
out = []
i = 0
while i < len(lines):
    l = lines[i]
    if l.startswith("@table"):
        i += 1
        while i < len(lines) and not lines[i].startswith("@"):
            i += 1
        continue
    if l.startswith("@stmts"):
        i += 1
        continue
    out.append(l)
    i += 1
stripped = "\n".join(out)
with tempfile.TemporaryDirectory() as td:
    tov = os.path.join(td, os.path.basename(ov))
    open(tov, "w", encoding="utf8").write(stripped)
    r = subprocess.run([os.path.join(root, "tools/vx/target/debug/vx"), tov, "--repo", repo, "--out", os.path.join(td, "g.rs"), "--report", os.path.join(td, "r.json")], capture_output=True, text=True)
    if r.returncode != 0:
        print(r.stdout, r.stderr)
        sys.exit(2)
    rep = json.load(open(os.path.join(td, "r.json")))
fns = {it["path"]: it for it in rep["items"] if it["kind"] == "fn"}
res = []
for l in out:
    res.append(l)
    m = re.match(r"@@fn\s+(\S+)(.*)$", l)
    if m and "trusted" not in m.group(2) and m.group(1) in fns and fns[m.group(1)]["n_stmts"] > 0:
        it = fns[m.group(1)]
        res.append("@stmts %d" % it["n_stmts"])
        res.append("@table")
        for k, line, sn, depth in it["stmts"]:
            res.append("  %d d%d «%s»" % (k, depth, sn))
open(ov, "w", encoding="utf8").write("\n".join(res))
print("retabled", ov, "fns:", len(fns))
