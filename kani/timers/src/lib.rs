//! Kani unit `timers`: des/src/time/interval.rs included TEXTUALLY (`include!`) so that the private
//! `MissedTickBehavior::next_timeout` is visible to the harnesses; `iv_host` plays the role of `des::time`
//! (interval.rs says `use super::{sleep_until, SimTime, Sleep}`), which is the real des/src/time/mod.rs included verbatim.
//! Loop-free harnesses over fully symbolic (secs, nanos) inputs up to 500 years: complete for that domain.
#![allow(dead_code, unused, unexpected_cfgs)]
#[macro_use]
#[path = "@REPO@/des/src/macros/cfg.rs"]
mod cfg_macros;
#[path = "@REPO@/des/src/time/mod.rs"]
pub mod time;

pub mod iv_host {
    pub use crate::time::{sleep_until, SimTime, Sleep};
    pub mod iv {
        include!("@REPO@/des/src/time/interval.rs");

        #[cfg(kani)]
        mod proofs {
            use super::*;
            const YEARS_500: u64 = 500 * 366 * 24 * 3600;
            fn any_time() -> SimTime {
                let secs: u64 = kani::any();
                let nanos: u32 = kani::any();
                kani::assume(secs <= YEARS_500 && nanos < 1_000_000_000);
                SimTime::from_duration(Duration::new(secs, nanos))
            }
            fn any_dur() -> Duration {
                let secs: u64 = kani::any();
                let nanos: u32 = kani::any();
                kani::assume(secs <= YEARS_500 && nanos < 1_000_000_000);
                Duration::new(secs, nanos)
            }

            /// Burst: the next tick is one period after the tick that was due; Delay: one period after now.
            #[kani::proof]
            fn next_timeout_burst_and_delay() {
                let timeout = any_time();
                let now = any_time();
                let period = any_dur();
                kani::assume(now >= timeout);
                assert!(MissedTickBehavior::Burst.next_timeout(timeout, now, period) == timeout + period);
                assert!(MissedTickBehavior::Delay.next_timeout(timeout, now, period) == now + period);
            }
        }
    }
}
