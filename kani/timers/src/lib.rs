//! Kani unit `timers`: des/src/time/interval.rs included TEXTUALLY (`include!`) so that the private
//! `MissedTickBehavior::next_timeout` is visible to the harnesses; `iv_host` plays the role of `des::time`
//! (interval.rs says `use super::{sleep_until, SimTime, Sleep}`), which is the real des/src/time/mod.rs included verbatim.
//! Loop-free harnesses over fully symbolic (secs, nanos) inputs up to 500 years: complete for that domain.
#![allow(dead_code, unused, unexpected_cfgs)]
#[macro_use]
#[path = "@REPO@/des/src/macros/cfg.rs"]
mod cfg_macros;
#[path = "@REPO@/des/src/time/mod.rs"]
pub mod time;

pub mod iv_host {
    pub use crate::time::{sleep_until, SimTime, Sleep};
    pub mod iv {
        include!("@REPO@/des/src/time/interval.rs");

        #[cfg(kani)]
        mod proofs {
            use super::*;
            const YEARS_500: u64 = 500 * 366 * 24 * 3600;
            fn any_time() -> SimTime {
                let secs: u64 = kani::any();
                let nanos: u32 = kani::any();
                kani::assume(secs <= YEARS_500 && nanos < 1_000_000_000);
                SimTime::from_duration(Duration::new(secs, nanos))
            }
            fn any_dur() -> Duration {
                let secs: u64 = kani::any();
                let nanos: u32 = kani::any();
                kani::assume(secs <= YEARS_500 && nanos < 1_000_000_000);
                Duration::new(secs, nanos)
            }

            /// The operator impls of SimTime (time/mod.rs, time/duration.rs) follow the nanosecond counts: this is the contract the
            /// Verus unit `interval` ASSUMES for `SimTime + Duration`, `SimTime - Duration`, `SimTime - SimTime`.
            // Stated on (seconds, sub-second nanoseconds) — 64/32-bit arithmetic CBMC decides in seconds — which is equivalent to the
            // statement on the nanosecond count secs * 10^9 + nanos (128-bit products gave no verdict in 150 s).
            const G: u64 = 1_000_000_000;

            #[kani::proof]
            fn simtime_plus_duration_follows_nanoseconds() {
                let a = any_time();
                let d = any_dur();
                let r = a + d;
                let ns = a.subsec_nanos() as u64 + d.subsec_nanos() as u64;
                let carry = if ns >= G { 1 } else { 0 };
                assert!(r.as_secs() == a.as_secs() + d.as_secs() + carry);
                assert!(r.subsec_nanos() as u64 == ns - carry * G);
            }

            #[kani::proof]
            fn simtime_minus_duration_follows_nanoseconds() {
                let a = any_time();
                let d = any_dur();
                kani::assume(*a >= d);
                let r = a - d;
                let borrow = if a.subsec_nanos() < d.subsec_nanos() { 1 } else { 0 };
                assert!(r.as_secs() == a.as_secs() - d.as_secs() - borrow);
                assert!(r.subsec_nanos() as u64 == a.subsec_nanos() as u64 + borrow * G - d.subsec_nanos() as u64);
            }

            #[kani::proof]
            fn simtime_minus_simtime_follows_nanoseconds() {
                let a = any_time();
                let b = any_time();
                kani::assume(a >= b);
                let r: Duration = a - b;
                let borrow = if a.subsec_nanos() < b.subsec_nanos() { 1 } else { 0 };
                assert!(r.as_secs() == a.as_secs() - b.as_secs() - borrow);
                assert!(r.subsec_nanos() as u64 == a.subsec_nanos() as u64 + borrow * G - b.subsec_nanos() as u64);
            }

            /// Burst: the next tick is one period after the tick that was due; Delay: one period after now.
            #[kani::proof]
            fn next_timeout_burst_and_delay() {
                let timeout = any_time();
                let now = any_time();
                let period = any_dur();
                kani::assume(now >= timeout);
                assert!(MissedTickBehavior::Burst.next_timeout(timeout, now, period) == timeout + period);
                assert!(MissedTickBehavior::Delay.next_timeout(timeout, now, period) == now + period);
            }
        }
    }
}
