//! Kani unit `allocarith`: des-cqueue/src/stable/alloc.rs is pulled in VERBATIM with include! so that the harness module
//! can be a child of the module holding the (private) functions. Only the pure placement arithmetic is under contract
//! (align_up, alloc_from_region, size_align); the free-list functions are not (see DESIGN.md C15).
#![allow(dead_code, unused)]
mod alloc_real {
    include!("@REPO@/des-cqueue/src/stable/alloc.rs");

    #[cfg(kani)]
    mod proofs {
        use super::*;

        fn pow2(k: u32) -> usize { 1usize << k }

        /// align_up(addr, 2^k): smallest multiple of the alignment that is >= addr (no overflow under the stated bound)
        #[kani::proof]
        fn align_up_contract() {
            let addr: usize = kani::any();
            let k: u32 = kani::any();
            kani::assume(k < 63);
            let align = pow2(k);
            kani::assume(addr <= usize::MAX - align);
            let r = align_up(addr, align);
            assert!(r >= addr);
            assert!(r - addr < align);
            assert!(r % align == 0);
            // idempotent on aligned addresses
            if addr % align == 0 { assert!(r == addr); }
        }

        /// alloc_from_region: Ok(s) => the block [s, s+size) lies inside the region, is aligned, and the rest is
        /// empty or can hold a ListNode; Err otherwise only for the three documented reasons.
        #[kani::proof]
        fn alloc_from_region_contract() {
            let rsize: usize = kani::any();
            let node = ListNode::new(rsize);
            let start = node.start_addr();
            kani::assume(rsize <= usize::MAX - start);
            let size: usize = kani::any();
            let k: u32 = kani::any();
            kani::assume(k <= 12);
            let align = pow2(k);
            kani::assume(start <= usize::MAX - align);
            let end = start + rsize;
            match CQueueLLAllocatorInner::alloc_from_region(&node, size, align) {
                Ok(s) => {
                    assert!(s >= start);
                    assert!(s % align == 0);
                    assert!(s - start < align);
                    assert!(s <= usize::MAX - size);
                    assert!(s + size <= end);
                    let excess = end - (s + size);
                    assert!(excess == 0 || excess >= size_of::<ListNode>());
                }
                Err(()) => {
                    let s = align_up(start, align);
                    let fits = s <= usize::MAX - size && s + size <= end;
                    if fits {
                        let excess = end - (s + size);
                        assert!(excess > 0 && excess < size_of::<ListNode>());
                    }
                }
            }
        }

        /// size_align: the block handed to the free list can always hold a ListNode and is aligned for it
        #[kani::proof]
        fn size_align_contract() {
            let size: usize = kani::any();
            let k: u32 = kani::any();
            kani::assume(k <= 12);
            // zero-sized layouts with align >= 32 are outside the contract (16 % 32 != 0); never requested: list nodes are >= 48 bytes
            kani::assume(size >= 1 && size <= 1 << 20);
            let align = pow2(k);
            let layout = match Layout::from_size_align(size, align) { Ok(l) => l, Err(_) => return };
            let (s, a) = CQueueLLAllocatorInner::size_align(layout);
            assert!(a >= align_of::<ListNode>());
            assert!(a >= align);
            assert!(a.is_power_of_two());
            assert!(s >= size_of::<ListNode>());
            assert!(s >= size);
            assert!(s % a == 0);
            assert!(s < size + a || s == size_of::<ListNode>());
        }
    }
}
