//! Kani unit `simtime`: des/src/time/mod.rs (+ macros/cfg.rs) included VERBATIM.
//! Justifies rewrite R4 / the ghost clock mirror of the Verus units: now() returns what set_now stored.
#![allow(dead_code, unused, unexpected_cfgs)]
#[macro_use]
#[path = "@REPO@/des/src/macros/cfg.rs"]
mod cfg_macros;
#[path = "@REPO@/des/src/time/mod.rs"]
pub mod time;

#[cfg(kani)]
mod proofs {
    use crate::time::*;
    use std::time::Duration;

    #[kani::proof]
    fn set_now_then_now_roundtrip() {
        let secs: u64 = kani::any();
        let nanos: u32 = kani::any();
        kani::assume(nanos < 1_000_000_000);
        let t = SimTime::from_duration(Duration::new(secs, nanos));
        SimTime::set_now(t);
        assert!(SimTime::now() == t);
        // a second store overwrites the first
        let secs2: u64 = kani::any();
        let nanos2: u32 = kani::any();
        kani::assume(nanos2 < 1_000_000_000);
        let t2 = SimTime::from_duration(Duration::new(secs2, nanos2));
        SimTime::set_now(t2);
        assert!(SimTime::now() == t2);
    }

    #[kani::proof]
    fn from_duration_deref_roundtrip() {
        let secs: u64 = kani::any();
        let nanos: u32 = kani::any();
        kani::assume(nanos < 1_000_000_000);
        let d = Duration::new(secs, nanos);
        let t = SimTime::from_duration(d);
        assert!(*t == d);
        let d2 = Duration::new(kani::any(), 0);
        let t2 = SimTime::from_duration(d2);
        assert!((t < t2) == (d < d2));
        assert!((t == t2) == (d == d2));
    }
}
