//! Kani unit `body`: des/src/net/message/body.rs is included VERBATIM (#[path]); nothing of it is copied.
//! Harnesses are loop-free over fully symbolic payload values: each is a complete proof for its type instance.
#![allow(dead_code, unused)]
#[path = "@REPO@/des/src/net/message/body.rs"]
mod body;
// shim: body.rs imports crate::time::{Duration, SimTime} only to implement MessageBody for them (byte_len = size_of)
mod time {
    pub use std::time::Duration;
    #[derive(Debug, Clone, Copy, PartialEq)]
    pub struct SimTime(pub Duration);
}

#[cfg(kani)]
mod proofs {
    use super::body::*;
    use std::sync::atomic::{AtomicUsize, Ordering};

    static DROPS: AtomicUsize = AtomicUsize::new(0);
    fn drops() -> usize { DROPS.load(Ordering::SeqCst) }

    /// payload with a destructor that counts
    #[derive(Debug, Clone, PartialEq)]
    struct Tok(u32);
    impl Drop for Tok {
        fn drop(&mut self) { DROPS.fetch_add(1, Ordering::SeqCst); }
    }
    impl MessageBody for Tok {
        fn byte_len(&self) -> usize { 77 } // declared length deliberately differs from size_of::<Tok>()
    }

    /// same layout as Tok / u32, different type
    #[derive(Debug, Clone, PartialEq)]
    struct Other(u32);

    #[derive(Debug, PartialEq)]
    struct NoClone(u64);
    impl MessageBody for NoClone {
        fn byte_len(&self) -> usize { 1000 } // declared length deliberately differs from size_of::<NoClone>()
    }

    // ---- exactly the creation type reads back, with the value put in -------------------------------
    #[kani::proof]
    fn readback_u32() {
        let x: u32 = kani::any();
        let mut b = Body::new(x);
        assert!(b.is::<u32>());
        assert!(b.length() == 4);
        assert!(b.try_content::<u32>() == Some(&x));
        assert!(b.try_content_mut::<u32>().map(|v| *v) == Some(x));
        match b.try_cast::<u32>() { Ok(v) => assert!(v == x), Err(_) => assert!(false) }
    }

    #[kani::proof]
    fn readback_u8_u64_unit_array() {
        let a: u8 = kani::any();
        let b: u64 = kani::any();
        let c: [u8; 4] = kani::any();
        let ba = Body::new(a);
        let bb = Body::new(b);
        let bu = Body::new(());
        let bc = Body::new_with_len(c, 4);
        assert!(ba.length() == 1 && bb.length() == 8 && bu.length() == 0 && bc.length() == 4);
        assert!(ba.try_content::<u8>() == Some(&a));
        assert!(bb.try_content::<u64>() == Some(&b));
        assert!(bu.try_content::<()>() == Some(&()));
        assert!(bc.try_content::<[u8; 4]>() == Some(&c));
        assert!(bb.try_cast::<u64>().ok() == Some(b));
        assert!(bc.try_cast::<[u8; 4]>().ok() == Some(c));
        assert!(ba.try_cast::<u8>().ok() == Some(a));
    }

    // ---- any other type: None / Err, message intact, never a reinterpretation ---------------------
    #[kani::proof]
    fn mismatch_leaves_body_intact() {
        let x: u32 = kani::any();
        let mut b = Body::new(x);
        assert!(!b.is::<i32>() && !b.is::<u64>() && !b.is::<[u8; 4]>() && !b.is::<Other>() && !b.is::<()>());
        assert!(b.try_content::<i32>().is_none());
        assert!(b.try_content::<[u8; 4]>().is_none());
        assert!(b.try_content_mut::<Other>().is_none());
        let b = match b.try_cast::<i32>() { Ok(_) => { assert!(false); return; } Err(b) => b };
        let b = match b.try_cast::<[u8; 4]>() { Ok(_) => { assert!(false); return; } Err(b) => b };
        let b = match b.try_cast::<u64>() { Ok(_) => { assert!(false); return; } Err(b) => b };
        // intact
        assert!(b.is::<u32>());
        assert!(b.length() == 4);
        assert!(b.try_content::<u32>() == Some(&x));
        assert!(b.try_cast::<u32>().ok() == Some(x));
    }

    // ---- identity is the TypeId, not the printed name: two distinct types with the same fully qualified name ---------------
    #[kani::proof]
    fn same_named_types_are_distinct() {
        let x: u32 = kani::any();
        let b = { #[derive(Debug, Clone, PartialEq)] struct Twin(u32); Body::new_with_len(Twin(x), 4) };
        { #[derive(Debug, Clone, PartialEq)] struct Twin(u64);
          assert!(!b.is::<Twin>());
          assert!(b.try_content::<Twin>().is_none());
          assert!(b.try_cast::<Twin>().is_err()); }
    }

    // ---- zero-sized payload with a destructor: dropped exactly once as well --------------------------------------------
    static ZDROPS: AtomicUsize = AtomicUsize::new(0);
    #[derive(Debug, Clone, PartialEq)]
    struct Permit;
    impl Drop for Permit {
        fn drop(&mut self) { ZDROPS.fetch_add(1, Ordering::SeqCst); }
    }
    #[kani::proof]
    fn zero_sized_payload_dropped_once() {
        let base = ZDROPS.load(Ordering::SeqCst);
        let failed_cast: bool = kani::any();
        let do_clone: bool = kani::any();
        {
            let mut b = Body::new_with_len(Permit, 0);
            assert!(b.is::<Permit>() && !b.is::<()>());
            let c = if do_clone { Some(b.clone()) } else { None };
            if failed_cast { b = match b.try_cast::<()>() { Ok(_) => { assert!(false); return; } Err(b) => b }; }
            assert!(ZDROPS.load(Ordering::SeqCst) == base);
            drop(b);
            assert!(ZDROPS.load(Ordering::SeqCst) == base + 1);
            drop(c);
        }
        assert!(ZDROPS.load(Ordering::SeqCst) == base + 1 + (if do_clone { 1 } else { 0 }));
    }

    // ---- clone: equal, independent value; declared length is kept ---------------------------------
    #[kani::proof]
    fn clone_is_equal_and_independent() {
        let x: u32 = kani::any();
        let y: u32 = kani::any();
        let len: usize = kani::any();
        let b = Body::new_with_len(x, len);
        let mut c = b.clone();
        assert!(c.length() == len && b.length() == len);
        assert!(c.is::<u32>());
        *c.try_content_mut::<u32>().unwrap() = y;
        assert!(b.try_content::<u32>() == Some(&x));
        assert!(c.try_content::<u32>() == Some(&y));
        let d = c.try_clone().unwrap();
        assert!(d.try_cast::<u32>().ok() == Some(y));
    }

    #[kani::proof]
    fn non_clonable_yields_none() {
        let x: u64 = kani::any();
        let b = Body::new_non_clonable(NoClone(x));
        assert!(b.try_clone().is_none());
        assert!(b.length() == 1000); // the DECLARED byte length, not the memory size
        assert!(b.is::<NoClone>() && !b.is::<u64>());
        assert!(b.try_cast::<NoClone>().ok() == Some(NoClone(x)));
    }

    // ---- a clonable value without Debug: clones like any other value ------------------------------
    #[kani::proof]
    fn non_debugable_clones_and_casts() {
        let x: u32 = kani::any();
        let b = Body::new_non_debugable(Other(x));
        assert!(b.length() == std::mem::size_of::<Other>());
        assert!(b.is::<Other>() && !b.is::<u32>());
        let c = b.try_clone();
        assert!(c.is_some());
        let c = c.unwrap();
        assert!(c.try_content::<Other>() == Some(&Other(x)));
        let d = b.clone(); // must not panic
        assert!(d.length() == b.length());
        assert!(d.try_cast::<Other>().ok() == Some(Other(x)));
        assert!(b.try_cast::<Other>().ok() == Some(Other(x)));
    }

    // ---- declared lengths of containers are the sums over their parts ------------------------------
    #[kani::proof]
    #[kani::unwind(5)]
    fn container_lengths_are_sums() {
        let (a, b, c): (bool, bool, bool) = (kani::any(), kani::any(), kani::any());
        let x: u32 = kani::any();
        let e = |f: bool| if f { Some(x) } else { None };
        let n = |f: bool| if f { x.byte_len() } else { 0 };
        assert!(x.byte_len() == 4);
        assert!(e(a).byte_len() == n(a));
        let arr: [Option<u32>; 3] = [e(a), e(b), e(c)];
        assert!(arr.byte_len() == n(a) + n(b) + n(c)); // elements of different lengths: not first * N
        assert!((&arr[..]).byte_len() == n(a) + n(b) + n(c));
        assert!((e(a), e(b)).byte_len() == n(a) + n(b));
        assert!((e(a), e(b), x).byte_len() == n(a) + n(b) + 4);
        assert!(Box::new(e(c)).byte_len() == n(c));
        let r: Result<u32, Option<u32>> = if a { Ok(x) } else { Err(e(b)) };
        assert!(r.byte_len() == if a { 4 } else { n(b) });
        let v: Vec<Option<u32>> = vec![e(a), e(b)];
        assert!(v.byte_len() == n(a) + n(b));
        let empty: [Option<u32>; 0] = [];
        assert!(empty.byte_len() == 0);
    }

    // ---- every stored value is dropped exactly once, over all paths of a symbolic script -----------
    #[kani::proof]
    fn drop_exactly_once_all_scripts() {
        let x: u32 = kani::any();
        let do_clone: bool = kani::any();
        let do_try_clone: bool = kani::any();
        let do_failed_cast: bool = kani::any();
        let do_ok_cast: bool = kani::any();
        let base = drops();
        let mut created: usize = 1;
        {
            let mut b = Body::new(Tok(x));
            let mut extra: Option<Body> = None;
            let mut extra2: Option<Body> = None;
            if do_clone {
                extra = Some(b.clone());
                created += 1;
            }
            if do_try_clone {
                extra2 = b.try_clone();
                assert!(extra2.is_some());
                created += 1;
            }
            if do_failed_cast {
                b = match b.try_cast::<Other>() { Ok(_) => { assert!(false); return; } Err(b) => b };
                assert!(drops() == base); // a failed cast drops nothing
            }
            if do_ok_cast {
                let v = match b.try_cast::<Tok>() { Ok(v) => v, Err(_) => { assert!(false); return; } };
                assert!(v.0 == x);
                assert!(drops() == base); // moving the value out drops nothing
                drop(v);
            } else {
                drop(b);
            }
            assert!(drops() == base + 1); // the original, exactly once
            if let Some(e) = &extra {
                assert!(e.try_content::<Tok>().map(|t| t.0) == Some(x)); // clones are still alive and equal
            }
        }
        assert!(drops() == base + created); // every stored value exactly once, on all 16 paths
    }

    #[kani::proof]
    fn drop_count_total() {
        let x: u32 = kani::any();
        assert!(Body::new(Tok(x)).length() == 77);
        assert!(Body::new(Tok(x)).clone().length() == 77);
        let n_clones: u8 = kani::any();
        kani::assume(n_clones <= 2);
        let base = drops();
        {
            let b = Body::new(Tok(x));
            let c1 = if n_clones >= 1 { Some(b.clone()) } else { None };
            let c2 = if n_clones >= 2 { Some(b.clone()) } else { None };
            let cast_first: bool = kani::any();
            if cast_first {
                let v = b.try_cast::<Tok>().ok().unwrap();
                drop(v);
            }
        }
        assert!(drops() == base + 1 + n_clones as usize);
    }
}
