use des::prelude::*;
use serial_test::serial;
struct M; impl Module for M {}

fn link(sim: &mut des::net::SimBuilder<()>, a: &str, b: &str) {
    sim.gate(a, &format!("to-{b}")).connect(sim.gate(b, &format!("to-{a}")), None);
}

#[test]
#[serial]
fn dijkstra_min_hop() {
    let mut sim = Sim::new(());
    for n in ["a","b","c","d"] { sim.node(n, M); }
    link(&mut sim, "a", "b");
    link(&mut sim, "a", "c");
    link(&mut sim, "c", "b");
    link(&mut sim, "b", "d");
    let topo = sim.globals().topology();
    let dj = topo.dijkstra("a");
    for (k, e) in &dj { println!("{} -> first hop to {}", k, e.to.module().path()); }
    assert_eq!(dj.get(&"b".into()).unwrap().to.module().path().as_str(), "b");
    assert_eq!(dj.get(&"c".into()).unwrap().to.module().path().as_str(), "c");
    assert_eq!(dj.get(&"d".into()).unwrap().to.module().path().as_str(), "b");
}

#[test]
#[serial]
fn spanned_edges_point_to_owner() {
    let mut sim = Sim::new(());
    for n in ["a","b","c","d","e"] { sim.node(n, M); }
    link(&mut sim, "a", "b");
    link(&mut sim, "a", "c");
    link(&mut sim, "a", "d");
    link(&mut sim, "b", "e");
    link(&mut sim, "c", "e");
    let root = sim.get(&"a".into()).unwrap();
    let topo = Topology::spanned(root);
    println!("nodes {:?}", topo.nodes().iter().map(|n| n.module().path().to_string()).collect::<Vec<_>>());
    for e in topo.edges() {
        println!("{} -> {} (gate owner {})", e.from.module().path(), e.to.module().path(), e.to.gate().owner().path());
    }
    for e in topo.edges() {
        assert_eq!(e.to.module().path(), e.to.gate().owner().path());
    }
}

#[test]
#[serial]
fn long_chain() {
    let mut sim = Sim::new(());
    sim.node("a", M); sim.node("z", M);
    // 20 transit gates on a: a.out -> t0 -> ... 
    let mut prev = sim.gate("a", "out");
    for i in 0..20 {
        let g = sim.gate("a", &format!("t{i}"));
        prev.connect(g.clone(), None);
        prev = g;
    }
    prev.connect(sim.gate("z", "in"), None);
    let topo = sim.globals().topology();
    for e in topo.edges() {
        println!("{}:{} -> {}:{}", e.from.module().path(), e.from.gate().name(), e.to.module().path(), e.to.gate().name());
    }
    assert!(topo.edges_for("a").any(|e| e.to.module().path().as_str() == "z"));
}
