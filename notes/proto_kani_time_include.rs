#![allow(dead_code, unused, unexpected_cfgs)]
#[macro_use]
#[path = "/repo/des/src/macros/cfg.rs"]
mod cfg_macros;
#[path = "/repo/des/src/time/mod.rs"]
pub mod time;

#[cfg(kani)]
mod proofs {
    use crate::time::*;
    use std::future::Future;
    use std::pin::Pin;
    use std::task::{Context, Poll, Waker};
    use std::time::Duration;

    #[kani::proof]
    fn set_now_roundtrip() {
        let secs: u64 = kani::any();
        let nanos: u32 = kani::any();
        kani::assume(nanos < 1_000_000_000);
        let t = SimTime::from_duration(Duration::new(secs, nanos));
        SimTime::set_now(t);
        assert!(SimTime::now() == t);
    }

    #[kani::proof]
    #[kani::unwind(6)]
    fn lost_timer() {
        let prev = Driver::new().set();
        let a: u64 = kani::any();
        let b: u64 = kani::any();
        kani::assume(a >= 1 && a < 10 && b >= 1 && b < 10);
        let mut cx = Context::from_waker(Waker::noop());
        let mut s1 = Box::pin(sleep(Duration::from_secs(a)));
        let mut s2 = Box::pin(sleep(Duration::from_secs(b)));
        assert!(s1.as_mut().poll(&mut cx).is_pending());
        assert!(s2.as_mut().poll(&mut cx).is_pending());
        drop(s1);
        let d = Driver::unset().unwrap();
        // s2 is still live: the driver must ask for a wake-up at its deadline
        assert!(d.next() == Some(SimTime::from_duration(Duration::from_secs(b))));
    }
}
