// F4 (C07): drop into des/tests/ — before commit 98a44d4 only 2 of the 4 messages were delivered (ids 3 and 4 stuck in the queue)
use des::prelude::*;
use std::sync::Mutex;
static LOG: Mutex<Vec<(u16, u64)>> = Mutex::new(Vec::new());
struct Node;
impl Module for Node {
    fn at_sim_start(&mut self, _s: usize) {
        send(Message::default().kind(9).id(1).with_content(vec![0u8; 1000]), "out");
        send(Message::default().kind(9).id(2), "out");
        send(Message::default().kind(9).id(3), "out");
        send(Message::default().kind(9).id(4), "out");
    }
    fn handle_message(&mut self, msg: Message) { LOG.lock().unwrap().push((msg.header().id, SimTime::now().as_nanos() as u64)); }
}
#[test]
fn f4_stuck_queue() {
    let mut sim = Sim::new(());
    sim.node("root", Node);
    let gi = sim.gate("root", "in"); let go = sim.gate("root", "out");
    let ch = Channel::new(ChannelMetrics::new(1_100_000_000_000, Duration::ZERO, Duration::ZERO, ChannelDropBehaviour::Queue(None)));
    go.connect(gi, Some(ch));
    let _ = Builder::seeded(1).quiet().build(sim.freeze()).run();
    assert_eq!(LOG.lock().unwrap().len(), 4, "{:?}", LOG.lock().unwrap());
}
