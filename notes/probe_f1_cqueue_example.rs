use des_cqueue::CQueue;
use std::time::Duration;
fn main() {
    let mut q: CQueue<&'static str> = CQueue::new(4, Duration::from_secs(1));
    let _ha = q.add(Duration::from_secs(5), "A");
    let hb = q.add(Duration::from_secs(5), "B");
    let (e, t) = q.fetch_next();
    println!("fetched {e} at {t:?}, len={}", q.len());
    q.cancel(hb);
    println!("after cancel(B): len={}", q.len());
    if !q.is_empty() {
        let (e, t) = q.fetch_next();
        println!("fetched CANCELLED event {e} at {t:?}");
    }
}
