use vstd::prelude::*;
use vstd::std_specs::cmp::*;
use vstd::std_specs::ops::*;
use vstd::arithmetic::div_mod::*;
use vstd::arithmetic::mul::*;
use std::collections::VecDeque;
use std::marker::PhantomData;
use std::ops::Rem;
use std::time::Duration;

verus! {

// ---------------------------------------------------------------- Duration (assumed contract on std)
pub uninterp spec fn dn(d: Duration) -> nat;

pub spec const MAXN: nat = 18446744073709551615 * 1000000000 + 999999999;

pub broadcast axiom fn ax_dn_bound(d: Duration)
    ensures #[trigger] dn(d) <= MAXN;

pub assume_specification[ Duration::as_nanos ](d: &Duration) -> (r: u128)
    ensures r as nat == dn(*d);

pub broadcast axiom fn ax_dur_eq(a: Duration, b: Duration)
    ensures (#[trigger] a.eq_spec(&b)) == (dn(a) == dn(b));

pub broadcast axiom fn ax_dur_ord(a: Duration, b: Duration)
    ensures
        (#[trigger] a.partial_cmp_spec(&b)) == (if dn(a) < dn(b) { Some(core::cmp::Ordering::Less) } else if dn(a) == dn(b) { Some(core::cmp::Ordering::Equal) } else { Some(core::cmp::Ordering::Greater) });

pub broadcast axiom fn ax_addas_req(a: Duration, b: Duration)
    ensures (#[trigger] a.add_assign_req(b)) == (dn(a) + dn(b) <= MAXN);
pub broadcast axiom fn ax_addas_spec(a: Duration, b: Duration)
    ensures dn(*(#[trigger] a.add_assign_spec(b))) == dn(a) + dn(b);

pub axiom fn ax_dur_obeys()
    ensures <Duration as PartialEqSpec>::obeys_eq_spec(), <Duration as PartialOrdSpec>::obeys_partial_cmp_spec(),
      <Duration as AddAssignSpec>::obeys_add_assign_spec();

pub broadcast group dur_axioms { ax_dn_bound, ax_dur_eq, ax_dur_ord, ax_addas_req, ax_addas_spec }

pub assume_specification<T>[ Option::<T>::unwrap_unchecked ](o: Option<T>) -> (r: T)
    requires o.is_some()
    ensures r == o.unwrap();

#[verifier::external_body]
pub fn rt_assert(b: bool)
    ensures b
{ assert!(b) }

// ---------------------------------------------------------------- DLL (contract assumed here; discharged separately)
pub type Ent<E> = (E, Duration, usize);

#[verifier::external_body]
#[verifier::accept_recursive_types(E)]
pub struct DualLinkedList<E> { _p: PhantomData<E> }

pub struct EventHandle<E> {
    pub _phantom: PhantomData<E>,
    pub id: usize,
    pub time: Duration,
}

pub open spec fn time_sorted<E>(s: Seq<Ent<E>>) -> bool {
    forall|i: int, j: int| 0 <= i < j < s.len() ==> dn(s[i].1) <= dn(s[j].1)
}

impl<E> DualLinkedList<E> {
    pub uninterp spec fn view(&self) -> Seq<Ent<E>>;

    #[verifier::external_body]
    pub fn is_empty(&self) -> (r: bool)
        ensures r == (self.view().len() == 0)
    { unimplemented!() }

    #[verifier::external_body]
    pub fn front_time(&self) -> (r: Duration)
        ensures self.view().len() == 0 ==> dn(r) == MAXN,
                self.view().len() > 0 ==> r == self.view()[0].1,
    { unimplemented!() }

    #[verifier::external_body]
    pub fn add(&mut self, event: E, time: Duration, event_id: usize)
        requires time_sorted(old(self).view()), dn(time) < MAXN,
        ensures exists|k: int| 0 <= k <= old(self).view().len()
            && final(self).view() == #[trigger] old(self).view().insert(k, (event, time, event_id))
            && (forall|j: int| 0 <= j < k ==> dn(old(self).view()[j].1) <= dn(time))
            && (forall|j: int| k <= j < old(self).view().len() ==> dn(old(self).view()[j].1) > dn(time)),
    { unimplemented!() }

    #[verifier::external_body]
    pub fn pop_min(&mut self) -> (r: Option<(E, Duration)>)
        ensures old(self).view().len() == 0 ==> r.is_none() && final(self).view() == old(self).view(),
                old(self).view().len() > 0 ==> r == Some((old(self).view()[0].0, old(self).view()[0].1))
                    && final(self).view() == old(self).view().subrange(1, old(self).view().len() as int),
    { unimplemented!() }
}

#[verifier::external_body]
pub struct CQueueLLAllocatorInner { _p: u8 }

// ---------------------------------------------------------------- CQueue (bodies = real code)
pub struct CQueue<E> {
    pub alloc: Box<CQueueLLAllocatorInner>,

    // Parameters
    pub n: usize,
    pub t: Duration,
    pub t_nanos: u128,

    // Buckets
    pub zero_event_bucket: VecDeque<(E, Duration, usize)>,
    pub buckets: Vec<DualLinkedList<E>>,

    pub head: usize,

    pub t_current: Duration,
    pub t0: Duration,
    pub t1: Duration,
    pub t_all: u128,

    // Misc
    pub event_id: usize,
    pub len: usize,
}

pub open spec fn bucket_of(time: nat, t: nat, n: nat) -> nat {
    (time / t) % n
}

pub open spec fn lex_lt(t1: nat, id1: usize, t2: nat, id2: usize) -> bool {
    t1 < t2 || (t1 == t2 && id1 < id2)
}

pub open spec fn bucket_ok<E>(s: Seq<Ent<E>>, b: int, q: CQueue<E>) -> bool {
    &&& forall|i: int, j: int| 0 <= i < j < s.len() ==> lex_lt(dn(s[i].1), s[i].2, dn(s[j].1), s[j].2)
    &&& forall|i: int| 0 <= i < s.len() ==> {
        &&& dn(#[trigger] s[i].1) >= dn(q.t_current)
        &&& dn(s[i].1) + 2 * q.t_nanos <= MAXN
        &&& bucket_of(dn(s[i].1), q.t_nanos as nat, q.n as nat) == b
        &&& s[i].2 < q.event_id
    }
}

impl<E> CQueue<E> {
    pub open spec fn wf(&self) -> bool {
        &&& self.n >= 1
        &&& self.buckets.len() == self.n
        &&& self.t_nanos >= 1
        &&& self.t_nanos == dn(self.t)
        &&& self.t_all == self.n * self.t_nanos
        &&& self.head < self.n
        &&& exists|k: nat| dn(self.t0) == #[trigger] (k * self.t_nanos) && self.head == k % (self.n as nat)
        &&& dn(self.t1) == dn(self.t0) + self.t_nanos
        &&& dn(self.t0) <= dn(self.t_current)
        &&& forall|b: int| 0 <= b < self.n ==> bucket_ok(#[trigger] self.buckets[b].view(), b, *self)
        &&& forall|i: int| 0 <= i < self.zero_event_bucket@.len() ==> dn(#[trigger] self.zero_event_bucket@[i].1) == dn(self.t_current) && self.zero_event_bucket@[i].2 < self.event_id
        &&& forall|i: int, j: int| 0 <= i < j < self.zero_event_bucket@.len() ==> self.zero_event_bucket@[i].2 < self.zero_event_bucket@[j].2
    }

    pub open spec fn nonzero_pending(&self) -> bool {
        exists|b: int| 0 <= b < self.n && #[trigger] self.buckets[b].view().len() > 0
    }

    #[must_use]
    pub fn len(&self) -> (r: usize)
        ensures r == self.len
    {
        self.len
    }

    #[must_use]
    pub fn is_empty(&self) -> (r: bool)
        ensures r == (self.len == 0)
    {
        self.len() == 0
    }

    pub fn add(&mut self, time: Duration, event: E) -> (h: EventHandle<E>)
        requires old(self).wf(), old(self).len < usize::MAX, old(self).event_id < usize::MAX,
            dn(time) + 2 * old(self).t_nanos <= MAXN,
        ensures final(self).wf(),
            dn(time) >= dn(old(self).t_current),
            h.id == old(self).event_id, h.time == time,
            final(self).len == old(self).len + 1,
            final(self).t_current == old(self).t_current,
    {
        proof { ax_dur_obeys(); }
        broadcast use dur_axioms;
        rt_assert(
            time >= self.t_current
        );

        self.len += 1;
        if time == self.t_current {
            let id = self.event_id;
            self.zero_event_bucket.push_back((event, time, id));
            self.event_id = id.wrapping_add(1);

            proof {
                assert forall|b: int| 0 <= b < self.n implies bucket_ok(#[trigger] self.buckets[b].view(), b, *self) by {
                    assert(bucket_ok(old(self).buckets[b].view(), b, *old(self)));
                }
                assert(old(self).wf());
                let k = choose|k: nat| dn(old(self).t0) == #[trigger] (k * old(self).t_nanos) && old(self).head == k % (old(self).n as nat);
                assert(dn(self.t0) == k * self.t_nanos && self.head == k % (self.n as nat));
                let z0 = old(self).zero_event_bucket@; let z1 = self.zero_event_bucket@;
                assert(z1 == z0.push((event, time, id)));
                assert forall|i: int| 0 <= i < z1.len() implies dn(#[trigger] z1[i].1) == dn(self.t_current) && z1[i].2 < self.event_id by {
                    if i < z0.len() { assert(z1[i] == z0[i]); assert(dn(z0[i].1) == dn(old(self).t_current)); }
                }
                assert forall|i: int, j: int| 0 <= i < j < z1.len() implies z1[i].2 < z1[j].2 by {
                    assert(z1[i] == z0[i]);
                    assert(dn(z0[i].1) == dn(old(self).t_current));
                    if j < z0.len() { assert(z1[j] == z0[j]); assert(z0[i].2 < z0[j].2); }
                }
                assert(self.wf());
            }
            EventHandle {
                _phantom: PhantomData,
                id,
                time,
            }
        } else {
            // delta time ?

            proof {
                lemma_mul_strictly_positive(self.n as int, self.t_nanos as int);
                assert(self.t_all > 0);
            }
            let time_mod = time.as_nanos().rem(self.t_all);
            assert(time_mod == dn(time) % (self.t_all as nat));

            let index = time_mod / self.t_nanos;
            proof {
                let x = dn(time) as int; let y = self.t_nanos as int; let z = self.n as int;
                lemma_breakdown(x, y, z);
                lemma_mul_is_commutative(y, z);
                lemma_mod_bound(x / y, z);
                lemma_mod_bound(x, y);
                lemma_fundamental_div_mod_converse(x % (y * z), y, (x / y) % z, x % y);
                assert(time_mod as int / y == (x / y) % z);
                lemma_small_mod(((x / y) % z) as nat, z as nat);
                assert(index == bucket_of(dn(time), self.t_nanos as nat, self.n as nat));
                assert(index < self.n);
            }
            let index: usize = index as usize;
            let index = index % self.n;

            // find insert pos

            let id = self.event_id;
            let ghost pre = self.buckets[index as int].view();
            proof {
                assert(index == bucket_of(dn(time), self.t_nanos as nat, self.n as nat));
                assert(bucket_ok(old(self).buckets[index as int].view(), index as int, *old(self)));
                assert forall|i: int, j: int| 0 <= i < j < pre.len() implies dn(pre[i].1) <= dn(pre[j].1) by {
                    assert(lex_lt(dn(pre[i].1), pre[i].2, dn(pre[j].1), pre[j].2));
                }
                assert(time_sorted(pre));
            }
            self.buckets[index].add(event, time, id);
            self.event_id = id.wrapping_add(1);
            proof {
                let post = self.buckets[index as int].view();
                let k = choose|k: int| 0 <= k <= pre.len()
                    && post == #[trigger] pre.insert(k, (event, time, id))
                    && (forall|j: int| 0 <= j < k ==> dn(pre[j].1) <= dn(time))
                    && (forall|j: int| k <= j < pre.len() ==> dn(pre[j].1) > dn(time));
                assert forall|b: int| 0 <= b < self.n implies bucket_ok(#[trigger] self.buckets[b].view(), b, *self) by {
                    assert(bucket_ok(old(self).buckets[b].view(), b, *old(self)));
                    if b == index {
                        assert forall|i: int, j: int| 0 <= i < j < post.len() implies lex_lt(dn(post[i].1), post[i].2, dn(post[j].1), post[j].2) by {
                            if i < k && j == k { assert(post[i] == pre[i]); }
                            else if i < k && j > k { assert(post[i] == pre[i]); assert(post[j] == pre[j-1]); }
                            else if i == k { assert(post[j] == pre[j-1]); }
                            else if i > k { assert(post[i] == pre[i-1]); assert(post[j] == pre[j-1]); }
                            else { assert(post[i] == pre[i]); assert(post[j] == pre[j]); }
                        }
                        assert forall|i: int| 0 <= i < post.len() implies
                            dn(#[trigger] post[i].1) >= dn(self.t_current)
                            && dn(post[i].1) + 2 * self.t_nanos <= MAXN
                            && bucket_of(dn(post[i].1), self.t_nanos as nat, self.n as nat) == b
                            && post[i].2 < self.event_id by {
                            if i < k { assert(post[i] == pre[i]); } else if i > k { assert(post[i] == pre[i-1]); }
                        }
                    }
                }
                let kk = choose|k: nat| dn(old(self).t0) == #[trigger] (k * old(self).t_nanos) && old(self).head == k % (old(self).n as nat);
                assert(dn(self.t0) == kk * self.t_nanos && self.head == kk % (self.n as nat));
                assert(self.wf());
            }
            EventHandle {
                _phantom: PhantomData,
                id,
                time,
            }
        }
    }

    pub open spec fn scan_inv(&self, o: &Self, wb: int, wi: int) -> bool {
        &&& self.n == o.n && self.t == o.t && self.t_nanos == o.t_nanos && self.t_all == o.t_all
        &&& self.event_id == o.event_id && self.len == o.len && self.t_current == o.t_current
        &&& self.n >= 1 && self.buckets.len() == self.n && self.t_nanos >= 1 && self.t_nanos == dn(self.t)
        &&& self.t_all == self.n * self.t_nanos
        &&& self.head < self.n
        &&& exists|k: nat| dn(self.t0) == #[trigger] (k * self.t_nanos) && self.head == k % (self.n as nat)
        &&& dn(self.t1) == dn(self.t0) + self.t_nanos
        &&& self.zero_event_bucket@.len() == 0
        &&& forall|b: int| 0 <= b < self.n ==> #[trigger] self.buckets[b].view() == o.buckets[b].view()
        &&& forall|b: int| 0 <= b < self.n ==> bucket_ok(#[trigger] self.buckets[b].view(), b, *self)
        &&& forall|b: int, i: int| 0 <= b < self.n && 0 <= i < self.buckets[b].view().len() ==> dn(#[trigger] self.buckets[b].view()[i].1) >= dn(self.t0)
        &&& 0 <= wb < self.n && 0 <= wi < self.buckets[wb].view().len()
    }

    pub fn fetch_next(&mut self) -> (r: (E, Duration))
        requires old(self).wf(), old(self).len > 0,
            old(self).zero_event_bucket@.len() > 0 || old(self).nonzero_pending(),
        ensures final(self).wf(),
            dn(r.1) >= dn(old(self).t_current),
            dn(final(self).t_current) == dn(r.1),
            final(self).len == old(self).len - 1,
            old(self).zero_event_bucket@.len() > 0 ==> r == (old(self).zero_event_bucket@[0].0, old(self).zero_event_bucket@[0].1)
                && final(self).zero_event_bucket@ == old(self).zero_event_bucket@.subrange(1, old(self).zero_event_bucket@.len() as int)
                && (forall|b: int| 0 <= b < old(self).n ==> #[trigger] final(self).buckets[b].view() == old(self).buckets[b].view()),
            old(self).zero_event_bucket@.len() == 0 ==> exists|hd: int| 0 <= hd < old(self).n && old(self).buckets[hd].view().len() > 0
                && r == (old(self).buckets[hd].view()[0].0, old(self).buckets[hd].view()[0].1)
                && #[trigger] final(self).buckets[hd].view() == old(self).buckets[hd].view().subrange(1, old(self).buckets[hd].view().len() as int)
                && (forall|b: int| 0 <= b < old(self).n && b != hd ==> #[trigger] final(self).buckets[b].view() == old(self).buckets[b].view())
                && (forall|b: int, i: int| 0 <= b < old(self).n && 0 <= i < old(self).buckets[b].view().len() ==>
                        dn(#[trigger] old(self).buckets[b].view()[i].1) > dn(r.1) || (b == hd && dn(old(self).buckets[b].view()[i].1) == dn(r.1))),
    {
        proof { ax_dur_obeys(); }
        broadcast use dur_axioms;
        rt_assert(!self.is_empty());

        if let Some((event, time, _)) = self.zero_event_bucket.pop_front() {
            self.len -= 1;
            proof {
                assert forall|b: int| 0 <= b < self.n implies bucket_ok(#[trigger] self.buckets[b].view(), b, *self) by {
                    assert(bucket_ok(old(self).buckets[b].view(), b, *old(self)));
                }
                let k = choose|k: nat| dn(old(self).t0) == #[trigger] (k * old(self).t_nanos) && old(self).head == k % (old(self).n as nat);
                assert(dn(self.t0) == k * self.t_nanos && self.head == k % (self.n as nat));
                let z0 = old(self).zero_event_bucket@; let z1 = self.zero_event_bucket@;
                assert forall|i: int| 0 <= i < z1.len() implies dn(#[trigger] z1[i].1) == dn(self.t_current) && z1[i].2 < self.event_id by {
                    assert(z1[i] == z0[i + 1]); assert(dn(z0[i + 1].1) == dn(old(self).t_current));
                }
                assert forall|i: int, j: int| 0 <= i < j < z1.len() implies z1[i].2 < z1[j].2 by {
                    assert(z1[i] == z0[i + 1]); assert(z1[j] == z0[j + 1]); assert(z0[i + 1].2 < z0[j + 1].2);
                }
                assert(dn(z0[0].1) == dn(old(self).t_current));
                assert(self.wf());
            }
            return (event, time);
        }

        let ghost wb: int = choose|b: int| 0 <= b < old(self).n && #[trigger] old(self).buckets[b].view().len() > 0;
        let ghost wi: int = 0;
        proof {
            assert forall|b: int, i: int| 0 <= b < self.n && 0 <= i < self.buckets[b].view().len() implies dn(#[trigger] self.buckets[b].view()[i].1) >= dn(self.t0) by {
                assert(bucket_ok(self.buckets[b].view(), b, *self));
            }
            assert(self.scan_inv(old(self), wb, wi));
        }

        loop
            invariant self.scan_inv(old(self), wb, wi), old(self).wf(), old(self).zero_event_bucket@.len() == 0, self.len > 0,
                <Duration as PartialEqSpec>::obeys_eq_spec(), <Duration as PartialOrdSpec>::obeys_partial_cmp_spec(),
                <Duration as AddAssignSpec>::obeys_add_assign_spec(),
            decreases dn(self.buckets[wb].view()[wi].1) - dn(self.t0),
        {
            broadcast use dur_axioms;
            let ghost t0_start = self.t0;
            // Move until full bucket is found.
            while self.buckets[self.head].is_empty()
                invariant self.scan_inv(old(self), wb, wi), old(self).wf(), old(self).zero_event_bucket@.len() == 0, self.len > 0,
                    dn(self.t0) >= dn(t0_start),
                    <Duration as PartialEqSpec>::obeys_eq_spec(), <Duration as PartialOrdSpec>::obeys_partial_cmp_spec(),
                    <Duration as AddAssignSpec>::obeys_add_assign_spec(),
                decreases dn(self.buckets[wb].view()[wi].1) - dn(self.t0),
            {
                broadcast use dur_axioms;
                let ghost pre = *self;
                proof { lemma_skip(pre, *old(self), wb, wi); }
                self.head = (self.head + 1) % self.n;
                self.t0 += self.t;
                self.t1 += self.t;
                proof { lemma_skip_post(pre, *self, *old(self), wb, wi); }
            }

            // Bucket with > 0 elements found

            let min = self.buckets[self.head].front_time();
            if min > self.t1 {
                let ghost pre = *self;
                proof {
                    let s = self.buckets[self.head as int].view();
                    assert(bucket_ok(s, self.head as int, *self));
                    assert forall|i: int| 0 <= i < s.len() implies dn(#[trigger] s[i].1) > dn(self.t1) by {
                        if i > 0 { assert(lex_lt(dn(s[0].1), s[0].2, dn(s[i].1), s[i].2)); }
                    }
                    lemma_skip(pre, *old(self), wb, wi);
                }
                self.head = (self.head + 1) % self.n;
                self.t0 += self.t;
                self.t1 += self.t;
                proof { lemma_skip_post(pre, *self, *old(self), wb, wi); }
                continue;
            }

            self.t_current = min;

            // SAFTEY:
            // Bucket is non-empty, thus pop-min returns a valid value.
            self.len -= 1;
            let ghost pre = *self;
            let ghost hs = self.buckets[self.head as int].view();
            proof {
                assert(bucket_ok(hs, self.head as int, *old(self)));
                assert(hs.len() > 0 && min == hs[0].1);
            }
            let ret = unsafe { self.buckets[self.head].pop_min().unwrap_unchecked() };
            proof {
                lemma_fetch_done(pre, *self, *old(self), wb, wi);
            }
            return ret;
        }
    }
}

pub open spec fn window_clear<E>(q: CQueue<E>) -> bool {
    forall|i: int| 0 <= i < q.buckets[q.head as int].view().len() ==> dn(#[trigger] q.buckets[q.head as int].view()[i].1) > dn(q.t1)
}

pub proof fn lemma_other_bucket(tt: nat, k: nat, t: nat, n: nat, b: nat)
    requires t >= 1, n >= 1, tt >= k * t, (tt / t) % n == b, b != k % n
    ensures tt >= (k + 1) * t
{
    lemma_div_multiples_vanish(k as int, t as int);
    lemma_mul_is_commutative(k as int, t as int);
    lemma_div_is_ordered((k * t) as int, tt as int, t as int);
    assert(tt / t >= k);
    assert(tt / t != k);
    lemma_fundamental_div_mod(tt as int, t as int);
    lemma_mul_inequality((k + 1) as int, (tt / t) as int, t as int);
    lemma_mul_is_commutative((tt / t) as int, t as int);
    lemma_mul_is_commutative((k + 1) as int, t as int);
}

// Everything still pending lies at or after t1 once the current window is known to be clear.
pub proof fn lemma_skip<E>(q: CQueue<E>, o: CQueue<E>, wb: int, wi: int)
    requires q.scan_inv(&o, wb, wi), window_clear(q), o.wf(),
    ensures
        forall|b: int, i: int| 0 <= b < q.n && 0 <= i < q.buckets[b].view().len() ==> dn(#[trigger] q.buckets[b].view()[i].1) >= dn(q.t1),
        dn(q.t1) + q.t_nanos <= MAXN,
        dn(q.t0) + q.t_nanos <= MAXN,
        q.head + 1 <= usize::MAX,
{
    let k = choose|k: nat| dn(q.t0) == #[trigger] (k * q.t_nanos) && q.head == k % (q.n as nat);
    assert forall|b: int, i: int| 0 <= b < q.n && 0 <= i < q.buckets[b].view().len() implies dn(#[trigger] q.buckets[b].view()[i].1) >= dn(q.t1) by {
        let s = q.buckets[b].view();
        assert(bucket_ok(s, b, q));
        if b != q.head {
            lemma_other_bucket(dn(s[i].1), k, q.t_nanos as nat, q.n as nat, b as nat);
            lemma_mul_is_distributive_add_other_way(q.t_nanos as int, k as int, 1);
        }
    }
    let w = q.buckets[wb].view()[wi];
    assert(bucket_ok(q.buckets[wb].view(), wb, q));
    assert(dn(w.1) >= dn(q.t1));
}

pub proof fn lemma_skip_post<E>(pre: CQueue<E>, q: CQueue<E>, o: CQueue<E>, wb: int, wi: int)
    requires pre.scan_inv(&o, wb, wi), o.wf(),
        forall|b: int, i: int| 0 <= b < pre.n && 0 <= i < pre.buckets[b].view().len() ==> dn(#[trigger] pre.buckets[b].view()[i].1) >= dn(pre.t1),
        q.head == (pre.head + 1) % (pre.n as int), dn(q.t0) == dn(pre.t0) + pre.t_nanos, dn(q.t1) == dn(pre.t1) + pre.t_nanos,
        q.n == pre.n, q.t == pre.t, q.t_nanos == pre.t_nanos, q.t_all == pre.t_all, q.event_id == pre.event_id, q.len == pre.len,
        q.t_current == pre.t_current, q.buckets == pre.buckets, q.zero_event_bucket == pre.zero_event_bucket,
    ensures q.scan_inv(&o, wb, wi),
        dn(q.buckets[wb].view()[wi].1) - dn(q.t0) < dn(pre.buckets[wb].view()[wi].1) - dn(pre.t0),
{
    let k = choose|k: nat| dn(pre.t0) == #[trigger] (k * pre.t_nanos) && pre.head == k % (pre.n as nat);
    let n = pre.n as int;
    lemma_mul_is_distributive_add_other_way(pre.t_nanos as int, k as int, 1);
    assert(dn(q.t0) == (k + 1) * q.t_nanos);
    lemma_add_mod_noop(k as int, 1, n);
    if n == 1 {
        lemma_mod_bound((k + 1) as int, n);
    } else {
        lemma_small_mod(1, n as nat);
    }
    lemma_mod_bound((pre.head + 1) as int, n);
    assert(q.head == (k + 1) % (q.n as nat));
    assert forall|b: int| 0 <= b < q.n implies bucket_ok(#[trigger] q.buckets[b].view(), b, q) by {
        assert(bucket_ok(pre.buckets[b].view(), b, pre));
    }
}


pub proof fn lemma_fetch_done<E>(pre: CQueue<E>, q: CQueue<E>, o: CQueue<E>, wb: int, wi: int)
    requires
        o.wf(), o.zero_event_bucket@.len() == 0,
        // pre = state right before pop_min: scan invariant except t_current := front time, len := len - 1
        pre.n == o.n && pre.t == o.t && pre.t_nanos == o.t_nanos && pre.t_all == o.t_all && pre.event_id == o.event_id,
        pre.buckets.len() == pre.n, pre.head < pre.n,
        exists|k: nat| dn(pre.t0) == #[trigger] (k * pre.t_nanos) && pre.head == k % (pre.n as nat),
        dn(pre.t1) == dn(pre.t0) + pre.t_nanos,
        pre.zero_event_bucket@.len() == 0,
        forall|b: int| 0 <= b < pre.n ==> #[trigger] pre.buckets[b].view() == o.buckets[b].view(),
        forall|b: int, i: int| 0 <= b < pre.n && 0 <= i < pre.buckets[b].view().len() ==> dn(#[trigger] pre.buckets[b].view()[i].1) >= dn(pre.t0),
        pre.buckets[pre.head as int].view().len() > 0,
        pre.t_current == pre.buckets[pre.head as int].view()[0].1,
        dn(pre.t_current) <= dn(pre.t1),
        // q = state after pop_min
        q.n == pre.n, q.t == pre.t, q.t_nanos == pre.t_nanos, q.t_all == pre.t_all, q.event_id == pre.event_id, q.len == pre.len,
        q.t_current == pre.t_current, q.t0 == pre.t0, q.t1 == pre.t1, q.head == pre.head, q.zero_event_bucket == pre.zero_event_bucket,
        q.buckets.len() == pre.buckets.len(),
        forall|b: int| 0 <= b < pre.n && b != pre.head ==> #[trigger] q.buckets[b] == pre.buckets[b],
        q.buckets[pre.head as int].view() == pre.buckets[pre.head as int].view().subrange(1, pre.buckets[pre.head as int].view().len() as int),
    ensures
        q.wf(),
        forall|b: int, i: int| 0 <= b < o.n && 0 <= i < o.buckets[b].view().len() ==>
            dn(#[trigger] o.buckets[b].view()[i].1) > dn(q.t_current) || (b == q.head && dn(o.buckets[b].view()[i].1) == dn(q.t_current)),
        dn(q.t_current) >= dn(o.t_current),
{
    let k = choose|k: nat| dn(pre.t0) == #[trigger] (k * pre.t_nanos) && pre.head == k % (pre.n as nat);
    let hd = pre.head as int;
    let hs = pre.buckets[hd].view();
    let m = dn(pre.t_current);
    assert(bucket_ok(o.buckets[hd].view(), hd, o));
    assert forall|b: int, i: int| 0 <= b < o.n && 0 <= i < o.buckets[b].view().len() implies
        dn(#[trigger] o.buckets[b].view()[i].1) > m || (b == hd && dn(o.buckets[b].view()[i].1) == m) by {
        let s = o.buckets[b].view();
        assert(s == pre.buckets[b].view());
        assert(bucket_ok(s, b, o));
        if b != hd {
            lemma_other_bucket(dn(s[i].1), k, pre.t_nanos as nat, pre.n as nat, b as nat);
            lemma_mul_is_distributive_add_other_way(pre.t_nanos as int, k as int, 1);
            assert(dn(s[i].1) >= dn(pre.t1));
            if dn(s[i].1) == m {
                assert(bucket_of(m, pre.t_nanos as nat, pre.n as nat) == hd);
            }
        } else {
            if i > 0 { assert(lex_lt(dn(s[0].1), s[0].2, dn(s[i].1), s[i].2)); }
        }
    }
    assert forall|b: int| 0 <= b < q.n implies bucket_ok(#[trigger] q.buckets[b].view(), b, q) by {
        let s = o.buckets[b].view();
        assert(bucket_ok(s, b, o));
        assert(s == pre.buckets[b].view());
        if b == hd {
            let s1 = q.buckets[b].view();
            assert forall|i: int| 0 <= i < s1.len() implies s1[i] == s[i + 1] by {}
            assert forall|i: int, j: int| 0 <= i < j < s1.len() implies lex_lt(dn(s1[i].1), s1[i].2, dn(s1[j].1), s1[j].2) by {
                assert(lex_lt(dn(s[i + 1].1), s[i + 1].2, dn(s[j + 1].1), s[j + 1].2));
            }
            assert forall|i: int| 0 <= i < s1.len() implies
                dn(#[trigger] s1[i].1) >= dn(q.t_current) && dn(s1[i].1) + 2 * q.t_nanos <= MAXN
                && bucket_of(dn(s1[i].1), q.t_nanos as nat, q.n as nat) == b && s1[i].2 < q.event_id by {
                assert(s1[i] == s[i + 1]);
                assert(dn(s[i + 1].1) >= dn(o.t_current));
            }
        } else {
            assert(q.buckets[b] == pre.buckets[b]);
            assert forall|i: int| 0 <= i < s.len() implies dn(#[trigger] s[i].1) >= dn(q.t_current) by {}
        }
    }
    assert(dn(q.t0) == k * q.t_nanos && q.head == k % (q.n as nat));
    assert(dn(hs[0].1) >= dn(o.t_current));
}

} // verus!
fn main() {}
