#![allow(dead_code, unused)]
#[path = "/repo/des/src/net/message/body.rs"]
mod body;
mod time { pub use std::time::Duration; pub struct SimTime(pub Duration); }

#[cfg(kani)]
mod proofs {
    use super::body::*;
    use std::sync::atomic::{AtomicUsize, Ordering};
    static DROPS: AtomicUsize = AtomicUsize::new(0);

    #[derive(Debug, Clone, PartialEq)]
    struct Tok(u32);
    impl Drop for Tok { fn drop(&mut self) { DROPS.fetch_add(1, Ordering::SeqCst); } }
    impl MessageBody for Tok { fn byte_len(&self) -> usize { 4 } }

    #[derive(Debug, Clone, PartialEq)]
    struct Other(u32);

    #[kani::proof]
    fn cast_roundtrip_and_drop_once() {
        let x: u32 = kani::any();
        let b = Body::new(Tok(x));
        assert!(b.length() == 4);
        assert!(b.is::<Tok>() && !b.is::<Other>() && !b.is::<u32>());
        let b = match b.try_cast::<Other>() { Ok(_) => { assert!(false); return; } Err(b) => b };
        assert!(DROPS.load(Ordering::SeqCst) == 0);
        let c = b.clone();
        let v = b.try_cast::<Tok>().ok().unwrap();
        assert!(v.0 == x);
        assert!(DROPS.load(Ordering::SeqCst) == 0);
        drop(v);
        assert!(DROPS.load(Ordering::SeqCst) == 1);
        assert!(c.try_content::<Tok>().unwrap().0 == x);
        drop(c);
        assert!(DROPS.load(Ordering::SeqCst) == 2);
    }
}
