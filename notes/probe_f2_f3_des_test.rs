use des::prelude::*;
use std::sync::Mutex;

static LOG: Mutex<Vec<(u32, SimTime)>> = Mutex::new(Vec::new());

struct App;
impl Application for App {
    type EventSet = Ev;
    type Lifecycle = ();
}
#[derive(Debug)]
struct Ev(u32);
impl Event<App> for Ev {
    fn handle(self, rt: &mut Runtime<App>) {
        LOG.lock().unwrap().push((self.0, SimTime::now()));
        if self.0 == 1 {
            // zero-delay follow-ups: same instant group X(10), Y(11)
            rt.add_event(Ev(10), SimTime::now());
            rt.add_event(Ev(11), SimTime::now());
        }
    }
}

#[test]
fn f2_start_time_rewind() {
    LOG.lock().unwrap().clear();
    let mut rt = Builder::seeded(1).quiet().start_time(10.0.into()).build(App);
    // scheduling before the start time must be rejected
    let r = std::panic::catch_unwind(std::panic::AssertUnwindSafe(|| {
        rt.add_event(Ev(99), SimTime::from(5.0));
    }));
    println!("F2: add_event(5s) with start_time 10s accepted = {}", r.is_ok());
    let res = rt.run().unwrap();
    println!("F2: log = {:?}, end = {}", LOG.lock().unwrap(), res.1);
}

#[test]
fn f3_step_reorder() {
    LOG.lock().unwrap().clear();
    let mut rt = Builder::seeded(1).quiet().build(App);
    rt.add_event(Ev(1), SimTime::from(5.0));
    rt.start();
    rt.dispatch_n_events(2); // Ev(1), then X
    rt.dispatch_all();
    let _ = rt.finish();
    println!("F3a stepped order = {:?}", LOG.lock().unwrap().iter().map(|e| e.0).collect::<Vec<_>>());

    LOG.lock().unwrap().clear();
    let mut rt = Builder::seeded(1).quiet().build(App);
    rt.add_event(Ev(1), SimTime::from(5.0));
    rt.start();
    rt.dispatch_n_events(1); // Ev(1) only; cut before X: X is fetched, put back behind Y
    rt.dispatch_all();
    let _ = rt.finish();
    println!("F3a stepped(1) order = {:?}", LOG.lock().unwrap().iter().map(|e| e.0).collect::<Vec<_>>());

    LOG.lock().unwrap().clear();
    let mut rt = Builder::seeded(1).quiet().build(App);
    rt.add_event(Ev(2), SimTime::from(5.0));
    rt.add_event(Ev(3), SimTime::from(7.0));
    rt.start();
    rt.dispatch_n_events(1);
    println!("F3b paused at {}", rt.sim_time());
    let r = std::panic::catch_unwind(std::panic::AssertUnwindSafe(|| {
        rt.add_event(Ev(4), SimTime::from(6.0));
    }));
    println!("F3b add_event(6s) while paused at 5s accepted = {}", r.is_ok());
}
