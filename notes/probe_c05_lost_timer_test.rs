// Probe for finding F8 (C05): drop into des/tests/ and run `cargo test -p des --test probe_c05_lost_timer_test`.
// Fails before 7d1a536 ("Empty simulation", the 10 s timer never fires), passes after.
use des::prelude::*;
use des::time::{sleep, Duration};
use std::sync::atomic::{AtomicU64, Ordering};

static WOKE_AT: AtomicU64 = AtomicU64::new(u64::MAX);

struct M;
impl Module for M {
    fn at_sim_start(&mut self, _: usize) {
        tokio::spawn(async {
            // a timer that is registered and then dropped within the same instant
            let mut s = Box::pin(sleep(Duration::from_secs(5)));
            let _ = futures::poll!(s.as_mut());
            drop(s);
            sleep(Duration::from_secs(10)).await;
            WOKE_AT.store(SimTime::now().as_secs(), Ordering::SeqCst);
        });
    }
}

#[test]
fn later_timer_not_lost() {
    let mut sim = Sim::new(());
    sim.node("m", M);
    let rt = Builder::seeded(1).build(sim.freeze());
    let _ = rt.run();
    assert_eq!(WOKE_AT.load(Ordering::SeqCst), 10);
}
