//! tree_driver — bounded replay for C12 on the REAL `des` crate: random module trees (names sharing prefixes), random admissible
//! insertion orders (each parent before its children), random stage counts; the observed at_sim_start / at_sim_end calls are
//! compared with the reference: stage-major, within a stage depth-first pre-order with siblings in creation order, every
//! (module, stage) exactly once, at_sim_end exactly once per module after the run. Never counts as proof.
//!
//! usage: tree_driver search <scenarios> <seed>     exit 0 = no mismatch, 3 = mismatch (JSON on stdout)
use des::prelude::*;
use std::sync::Mutex;

static LOG: Mutex<Vec<(String, i64)>> = Mutex::new(Vec::new()); // (path, stage) ; stage -1 = at_sim_end

static SHUTDOWN_AT: Mutex<Option<(String, usize)>> = Mutex::new(None);
static PANIC_AT: Mutex<Option<(String, usize)>> = Mutex::new(None); // a module that panics in one of its start-up stages

struct Rec { path: String, stages: usize }
impl Module for Rec {
    fn at_sim_start(&mut self, stage: usize) {
        LOG.lock().unwrap().push((self.path.clone(), stage as i64));
        // a module that shuts itself down (no restart) in its last start-up stage is inactive at the end and must still be torn down
        if SHUTDOWN_AT.lock().unwrap().clone() == Some((self.path.clone(), stage)) { current().shutdown(); }
        let p = PANIC_AT.lock().unwrap().clone();
        if p == Some((self.path.clone(), stage)) { panic!("module fault injected by tree_driver"); }
    }
    fn num_sim_start_stages(&self) -> usize { self.stages }
    fn at_sim_end(&mut self) -> Result<(), RuntimeError> { LOG.lock().unwrap().push((self.path.clone(), -1)); Ok(()) }
}

#[derive(Clone, Debug)]
struct Node { path: String, parent: Option<usize>, stages: usize }

fn gen(r: &mut dyn FnMut() -> u64) -> (Vec<Node>, Vec<usize>) {
    // names that are textual prefixes of each other on purpose
    let names = ["a", "ab", "b", "a1", "a10", "n", "nn", "x"];
    let total = 2 + (r() % 8) as usize;
    let mut nodes: Vec<Node> = vec![];
    for _ in 0..total {
        let parent = if nodes.is_empty() || r() % 3 == 0 { None } else { Some((r() % nodes.len() as u64) as usize) };
        // depth limit 4
        let depth = |mut p: Option<usize>, nodes: &Vec<Node>| { let mut d = 1; while let Some(i) = p { d += 1; p = nodes[i].parent; } d };
        let parent = if depth(parent, &nodes) > 4 { None } else { parent };
        let base = match parent { Some(p) => format!("{}.", nodes[p].path), None => String::new() };
        let mut name = None;
        for k in 0..names.len() {
            let cand = format!("{}{}", base, names[((r() as usize) + k) % names.len()]);
            if !nodes.iter().any(|n| n.path == cand) { name = Some(cand); break; }
        }
        let path = match name { Some(n) => n, None => continue };
        nodes.push(Node { path, parent, stages: if r() % 8 == 0 { 0 } else { 1 + (r() % 3) as usize } });
    }
    // creation order: a random linear extension of "parent before child" (creation order = order of `sim.node` calls)
    let mut order: Vec<usize> = vec![];
    let mut placed = vec![false; nodes.len()];
    while order.len() < nodes.len() {
        let ready: Vec<usize> = (0..nodes.len()).filter(|&i| !placed[i] && nodes[i].parent.map(|p| placed[p]).unwrap_or(true)).collect();
        let pick = ready[(r() % ready.len() as u64) as usize];
        placed[pick] = true;
        order.push(pick);
    }
    (nodes, order)
}

fn preorder(nodes: &[Node], order: &[usize]) -> Vec<usize> {
    // children of a node in creation order
    fn visit(i: usize, nodes: &[Node], order: &[usize], out: &mut Vec<usize>) {
        out.push(i);
        for &c in order.iter() { if nodes[c].parent == Some(i) { visit(c, nodes, order, out); } }
    }
    let mut out = vec![];
    for &i in order.iter() { if nodes[i].parent.is_none() { visit(i, nodes, order, &mut out); } }
    out
}

fn main() {
    let args: Vec<String> = std::env::args().collect();
    let count: usize = args.get(2).and_then(|s| s.parse().ok()).unwrap_or(2000);
    let seed: u64 = args.get(3).and_then(|s| s.parse().ok()).unwrap_or(1);
    let mut s = seed.wrapping_mul(6364136223846793005).wrapping_add(1442695040888963407) | 1;
    let mut rnd = move || { s ^= s << 13; s ^= s >> 7; s ^= s << 17; s };
    std::panic::set_hook(Box::new(|_| {}));
    for _ in 0..count {
        let (nodes, order) = gen(&mut rnd);
        LOG.lock().unwrap().clear();
        // every 5th scenario: one module panics in one of its start-up stages; the panic is contained, every OTHER module must still
        // see its start-up stages in order and its at_sim_end exactly once (the faulty module itself is left out of the comparison)
        let faulty: Option<usize> = if rnd() % 5 == 0 { Some((rnd() % nodes.len() as u64) as usize) } else { None };
        let faulty = faulty.filter(|f| nodes[*f].stages > 0);
        *PANIC_AT.lock().unwrap() = faulty.map(|f| (nodes[f].path.clone(), (rnd() % nodes[f].stages as u64) as usize));
        let fpath: Option<String> = faulty.map(|f| nodes[f].path.clone());
        let quitter: Option<usize> = if faulty.is_none() && rnd() % 6 == 0 { Some((rnd() % nodes.len() as u64) as usize) } else { None };
        let quitter = quitter.filter(|q| nodes[*q].stages > 0);
        *SHUTDOWN_AT.lock().unwrap() = quitter.map(|q| (nodes[q].path.clone(), nodes[q].stages - 1));
        let mut sim = Sim::new(());
        for &i in order.iter() { sim.node(nodes[i].path.as_str(), Rec { path: nodes[i].path.clone(), stages: nodes[i].stages }); }
        let res = std::panic::catch_unwind(std::panic::AssertUnwindSafe(move || Builder::seeded(1).quiet().build(sim.freeze()).run()));
        let log: Vec<(String, i64)> = LOG.lock().unwrap().iter().filter(|e| Some(&e.0) != fpath.as_ref()).cloned().collect();
        let pre = preorder(&nodes, &order);
        let max_stage = nodes.iter().map(|n| n.stages).max().unwrap_or(0);
        let mut expected: Vec<(String, i64)> = vec![];
        for st in 0..max_stage { for &i in pre.iter() { if nodes[i].stages > st && Some(i) != faulty { expected.push((nodes[i].path.clone(), st as i64)); } } }
        let starts: Vec<(String, i64)> = log.iter().filter(|e| e.1 >= 0).cloned().collect();
        let ends: Vec<String> = log.iter().filter(|e| e.1 < 0).map(|e| e.0.clone()).collect();
        let mut creation: Vec<String> = order.iter().map(|&i| format!("{}({})", nodes[i].path, nodes[i].stages)).collect();
        if let Some(p) = PANIC_AT.lock().unwrap().clone() { creation.push(format!("PANICS: {} in stage {}", p.0, p.1)); }
        if let Some(p) = SHUTDOWN_AT.lock().unwrap().clone() { creation.push(format!("SHUTS DOWN (no restart): {} in stage {}", p.0, p.1)); }
        let mut bad: Option<(&str, String, String)> = None;
        if res.is_err() { bad = Some(("run-panicked", "run() returns".into(), "panic".into())); }
        else if starts != expected { bad = Some(("start-up-order", format!("{:?}", expected), format!("{:?}", starts))); }
        else {
            let mut sorted = ends.clone(); sorted.sort();
            let mut all: Vec<String> = nodes.iter().enumerate().filter(|(i, _)| Some(*i) != faulty).map(|(_, n)| n.path.clone()).collect(); all.sort();
            if sorted != all { bad = Some(("at-sim-end-not-exactly-once", format!("{:?}", all), format!("{:?}", sorted))); }
            else if log.iter().position(|e| e.1 < 0).map(|p| log[p..].iter().any(|e| e.1 >= 0)).unwrap_or(false) { bad = Some(("at-sim-end-before-start", "all at_sim_end calls after the last at_sim_start".into(), format!("{:?}", log))); }
        }
        if let Some((kind, exp, obs)) = bad {
            println!("{{\"mismatch\":true,\"kind\":\"{}\",\"props\":\"C12\",\"scenario\":{{\"creation_order_path_stages\":{:?}}},\"expected\":\"{}\",\"observed\":\"{}\"}}", kind, creation, exp.replace('"', "'"), obs.replace('"', "'"));
            std::process::exit(3);
        }
    }
    println!("{{\"mismatch\":false,\"scenarios\":{},\"other\":\"\"}}", count);
}
