//! rt_driver — bounded replay of the Runtime-level contracts of units/core.vrs on the REAL `des` crate of /repo:
//! dispatch_event / dispatch_all / dispatch_n_events / dispatch_events_until / finish / add_event against an executable
//! reference (abstract event set + applies_spec + stepping semantics). Seeded random scenarios; never counts as proof.
//!
//! usage: rt_driver search <scenarios> <seed> [PROP]     exit 0 = no mismatch, 3 = mismatch (JSON on stdout)
//!        rt_driver replay '<scenario json>'
use des::prelude::*;
use des::runtime::RuntimeLimit;
use std::panic::{catch_unwind, AssertUnwindSafe};
use std::sync::Mutex;
use std::time::Duration as StdDuration;

// ---------------------------------------------------------------- scenario
#[derive(Clone, Debug)]
struct Spawn { delay: u64, id: u32 }
#[derive(Clone, Debug)]
struct Init { time: u64, id: u32 }
#[derive(Clone, Debug)]
enum Lim { None, Count(usize), Time(u64), Or(Box<Lim>, Box<Lim>), And(Box<Lim>, Box<Lim>) }
#[derive(Clone, Debug)]
enum Step { N(usize), Until(u64), AddValid(u64 /*offset from reported time*/, u32), AddPast(u32) }
#[derive(Clone, Debug)]
struct Scenario {
    n: usize, t: u64, start: u64,
    inits: Vec<Init>,
    spawns: Vec<(u32, Vec<Spawn>)>, // event id -> follow-ups scheduled by its handler, in this order
    builder_limits: Vec<Lim>,       // applied with max_itr / max_time / limit in this order
    steps: Vec<Step>,               // empty = run()
}

// ---------------------------------------------------------------- real application
static LOG: Mutex<Vec<(u32, u64)>> = Mutex::new(Vec::new());
static SPAWNS: Mutex<Vec<(u32, Vec<Spawn>)>> = Mutex::new(Vec::new());

struct App;
impl Application for App { type EventSet = Ev; type Lifecycle = (); }
#[derive(Debug)]
struct Ev(u32);
impl Event<App> for Ev {
    fn handle(self, rt: &mut Runtime<App>) {
        let now = SimTime::now();
        LOG.lock().unwrap().push((self.0, now.as_nanos() as u64));
        let sp: Vec<Spawn> = SPAWNS.lock().unwrap().iter().find(|(i, _)| *i == self.0).map(|(_, v)| v.clone()).unwrap_or_default();
        for s in sp {
            rt.add_event(Ev(s.id), now + StdDuration::from_nanos(s.delay));
        }
    }
}

fn st(ns: u64) -> SimTime { SimTime::from_duration(StdDuration::from_nanos(ns)) }

fn to_limit(l: &Lim) -> RuntimeLimit {
    match l {
        Lim::None => RuntimeLimit::None,
        Lim::Count(k) => RuntimeLimit::EventCount(*k),
        Lim::Time(t) => RuntimeLimit::SimTime(st(*t)),
        Lim::Or(a, b) => RuntimeLimit::CombinedOr(Box::new(to_limit(a)), Box::new(to_limit(b))),
        Lim::And(a, b) => RuntimeLimit::CombinedAnd(Box::new(to_limit(a)), Box::new(to_limit(b))),
    }
}

// ---------------------------------------------------------------- reference model
fn applies(l: &Lim, itr: usize, time: u64) -> bool {
    match l {
        Lim::None => false,
        Lim::Count(k) => itr > *k,
        Lim::Time(t) => time > *t,
        Lim::Or(a, b) => applies(a, itr, time) || applies(b, itr, time),
        Lim::And(a, b) => applies(a, itr, time) && applies(b, itr, time),
    }
}

#[derive(Clone)]
struct Model {
    zero: Vec<(u64, u32)>,        // (ordinal, event id)   entries at the event set's current time, FIFO
    rest: Vec<(u64, u64, u32)>,   // (time, ordinal, event id)
    es_now: u64,                  // time of the last fetched entry (0 initially)
    start: u64,
    clock: u64,
    next_ord: u64,
    itr: usize,
    log: Vec<(u32, u64)>,
}
impl Model {
    fn len(&self) -> usize { self.zero.len() + self.rest.len() }
    fn lower(&self) -> u64 { self.es_now.max(self.start) }
    fn add(&mut self, id: u32, time: u64) -> bool {
        if time < self.lower() { return false; }
        if time == self.es_now { self.zero.push((self.next_ord, id)); } else { self.rest.push((time, self.next_ord, id)); }
        self.next_ord += 1;
        true
    }
    fn peek(&self) -> Option<u64> {
        if self.len() == 0 { None } else if !self.zero.is_empty() { Some(self.es_now) } else { self.rest.iter().map(|e| e.0).min() }
    }
    fn fetch(&mut self) -> (u32, u64) {
        if !self.zero.is_empty() { let (_, id) = self.zero.remove(0); (id, self.es_now) } else {
            let mut b = 0; for i in 1..self.rest.len() { if (self.rest[i].0, self.rest[i].1) < (self.rest[b].0, self.rest[b].1) { b = i; } }
            let (t, _, id) = self.rest.remove(b); self.es_now = t; (id, t)
        }
    }
    fn dispatch_all(&mut self, lim: &Lim, spawns: &[(u32, Vec<Spawn>)]) {
        loop {
            let t = match self.peek() { Some(t) => t, None => return };
            if applies(lim, self.itr + 1, t) { return; }
            let (id, t) = self.fetch();
            self.itr += 1;
            self.clock = t;
            self.log.push((id, t));
            if let Some((_, sp)) = spawns.iter().find(|(i, _)| *i == id) {
                for s in sp { let ok = self.add(s.id, t + s.delay); debug_assert!(ok); }
            }
        }
    }
    fn drain(&mut self) -> Vec<(u32, u64)> { let mut v = vec![]; while self.len() > 0 { v.push(self.fetch()); } v }
}

fn combine(limits: &[Lim]) -> Lim {
    let mut cur = Lim::None;
    for l in limits { cur = match cur { Lim::None => l.clone(), c => Lim::Or(Box::new(c), Box::new(l.clone())) }; }
    cur
}

struct Mismatch { kind: &'static str, props: &'static str, expected: String, observed: String }

fn run(sc: &Scenario) -> Result<(), Mismatch> {
    LOG.lock().unwrap().clear();
    *SPAWNS.lock().unwrap() = sc.spawns.clone();
    let mut b = Builder::seeded(1).quiet().cqueue_options(sc.n, StdDuration::from_nanos(sc.t));
    if sc.start > 0 { b = b.start_time(st(sc.start)); }
    for l in sc.builder_limits.iter() {
        b = match l { Lim::Count(k) => b.max_itr(*k), Lim::Time(t) => b.max_time(st(*t)), other => b.limit(to_limit(other)) };
    }
    let lim = combine(&sc.builder_limits);
    let mut rt = b.build(App);
    let mut m = Model { zero: vec![], rest: vec![], es_now: 0, start: sc.start, clock: sc.start, next_ord: 0, itr: 0, log: vec![] };
    for i in sc.inits.iter() {
        let exp = m.add(i.id, i.time);
        let r = catch_unwind(AssertUnwindSafe(|| rt.add_event(Ev(i.id), st(i.time))));
        if r.is_ok() != exp {
            return Err(Mismatch { kind: if exp { "add-rejected-at-or-after-now" } else { "add-accepted-before-now" }, props: "C02 C10",
                expected: format!("add_event({}ns) before the run {} (lower bound {}ns)", i.time, if exp { "accepted" } else { "rejected" }, m.lower()), observed: if r.is_ok() { "accepted".into() } else { "panic".into() } });
        }
        if !exp { return Ok(()); }
    }
    let check_state = |rt: &Runtime<App>, m: &Model, at: &str| -> Result<(), Mismatch> {
        let log = LOG.lock().unwrap().clone();
        if log != m.log {
            // classify the first difference
            let k = (0..log.len().min(m.log.len())).find(|&i| log[i] != m.log[i]).unwrap_or(log.len().min(m.log.len()));
            let (kind, props) = if k < log.len() && k < m.log.len() && log[k].1 == m.log[k].1 && log[k].0 != m.log[k].0 { ("handled-wrong-tie-order", "C03 C10") }
                else if log.len() != m.log.len() && k == log.len().min(m.log.len()) { ("wrong-number-of-events-dispatched", "C10 C11") }
                else { ("handled-wrong-event-or-time", "C01 C02 C10 C11") };
            return Err(Mismatch { kind, props, expected: format!("{} log(id,time) = {:?}", at, m.log), observed: format!("{:?}", log) });
        }
        if rt.sim_time().as_nanos() as u64 != m.clock {
            return Err(Mismatch { kind: "reported-time", props: "C02 C10 C11", expected: format!("{} sim_time {}ns", at, m.clock), observed: format!("{}ns", rt.sim_time().as_nanos()) });
        }
        if rt.num_events_remaining() != m.len() || rt.num_events_dispatched() != m.itr {
            return Err(Mismatch { kind: "event-counters", props: "C10 C11", expected: format!("{} remaining {} dispatched {}", at, m.len(), m.itr), observed: format!("remaining {} dispatched {}", rt.num_events_remaining(), rt.num_events_dispatched()) });
        }
        Ok(())
    };
    let result;
    if sc.steps.is_empty() {
        m.dispatch_all(&lim, &sc.spawns);
        let r = catch_unwind(AssertUnwindSafe(move || rt.run()));
        match r { Ok(Ok(x)) => result = x, _ => return Err(Mismatch { kind: "run-panicked", props: "C02 C10 C11", expected: "run() returns".into(), observed: "panic/Err".into() }) }
    } else {
        rt.start();
        for (si, s) in sc.steps.iter().enumerate() {
            match s {
                Step::N(k) => { let l = Lim::Count(m.itr + *k); m.dispatch_all(&l, &sc.spawns);
                    if catch_unwind(AssertUnwindSafe(|| rt.dispatch_n_events(*k))).is_err() { return Err(Mismatch { kind: "step-panicked", props: "C10", expected: "dispatch_n_events returns".into(), observed: "panic".into() }); } }
                Step::Until(t) => { let l = Lim::Time(*t); m.dispatch_all(&l, &sc.spawns);
                    if catch_unwind(AssertUnwindSafe(|| rt.dispatch_events_until(st(*t)))).is_err() { return Err(Mismatch { kind: "step-panicked", props: "C10", expected: "dispatch_events_until returns".into(), observed: "panic".into() }); } }
                Step::AddValid(off, id) => {
                    let time = m.clock + *off;
                    let exp = m.add(*id, time);
                    let r = catch_unwind(AssertUnwindSafe(|| rt.add_event(Ev(*id), st(time))));
                    if r.is_ok() != exp {
                        return Err(Mismatch { kind: "paused-add-rejected", props: "C02 C10", expected: format!("add_event({}ns) while paused at {}ns accepted", time, m.clock), observed: "panic".into() });
                    }
                }
                Step::AddPast(id) => {
                    if m.clock == 0 { continue; }
                    let time = m.clock - 1;
                    let r = catch_unwind(AssertUnwindSafe(|| rt.add_event(Ev(*id), st(time))));
                    if r.is_ok() {
                        return Err(Mismatch { kind: "add-accepted-before-now", props: "C02", expected: format!("add_event({}ns) while paused at {}ns rejected", time, m.clock), observed: "accepted".into() });
                    }
                    return Ok(()); // the unwind may have left the runtime in an arbitrary state
                }
            }
            check_state(&rt, &m, &format!("after step {}", si))?;
        }
        m.dispatch_all(&lim, &sc.spawns);
        if catch_unwind(AssertUnwindSafe(|| rt.dispatch_all())).is_err() { return Err(Mismatch { kind: "step-panicked", props: "C10", expected: "dispatch_all returns".into(), observed: "panic".into() }); }
        check_state(&rt, &m, "after dispatch_all")?;
        match catch_unwind(AssertUnwindSafe(move || rt.finish())) { Ok(Ok(x)) => result = x, _ => return Err(Mismatch { kind: "finish-panicked", props: "C11", expected: "finish() returns".into(), observed: "panic/Err".into() }) }
    }
    let (_app, time, prof) = result;
    let log = LOG.lock().unwrap().clone();
    if log != m.log {
        let k = (0..log.len().min(m.log.len())).find(|&i| log[i] != m.log[i]).unwrap_or(log.len().min(m.log.len()));
        let (kind, props) = if k < log.len() && k < m.log.len() && log[k].1 == m.log[k].1 { ("handled-wrong-tie-order", "C03 C10") }
            else if k == log.len().min(m.log.len()) { ("wrong-number-of-events-dispatched", "C10 C11") } else { ("handled-wrong-event-or-time", "C01 C02 C10 C11") };
        return Err(Mismatch { kind, props, expected: format!("log(id,time) = {:?}", m.log), observed: format!("{:?}", log) });
    }
    if time.as_nanos() as u64 != m.clock {
        return Err(Mismatch { kind: "end-time", props: "C11 C02", expected: format!("end time {}ns", m.clock), observed: format!("{}ns", time.as_nanos()) });
    }
    let rem_exp = m.drain();
    let rem: Vec<(u32, u64)> = prof.remaining.iter().map(|(e, t)| (e.0, t.as_nanos() as u64)).collect();
    if rem != rem_exp {
        return Err(Mismatch { kind: "remaining-events", props: "C11", expected: format!("remaining {:?}", rem_exp), observed: format!("{:?}", rem) });
    }
    if prof.event_count != m.itr {
        return Err(Mismatch { kind: "event-count", props: "C11", expected: format!("{}", m.itr), observed: format!("{}", prof.event_count) });
    }
    Ok(())
}

// ---------------------------------------------------------------- generation / printing
fn lim_json(l: &Lim) -> String {
    match l { Lim::None => "\"none\"".into(), Lim::Count(k) => format!("{{\"count\":{}}}", k), Lim::Time(t) => format!("{{\"time\":{}}}", t),
        Lim::Or(a, b) => format!("{{\"or\":[{},{}]}}", lim_json(a), lim_json(b)), Lim::And(a, b) => format!("{{\"and\":[{},{}]}}", lim_json(a), lim_json(b)) }
}
fn sc_json(sc: &Scenario) -> String {
    let inits: Vec<String> = sc.inits.iter().map(|i| format!("[{},{}]", i.time, i.id)).collect();
    let spawns: Vec<String> = sc.spawns.iter().map(|(id, v)| format!("[{},[{}]]", id, v.iter().map(|s| format!("[{},{}]", s.delay, s.id)).collect::<Vec<_>>().join(","))).collect();
    let lims: Vec<String> = sc.builder_limits.iter().map(lim_json).collect();
    let steps: Vec<String> = sc.steps.iter().map(|s| match s { Step::N(k) => format!("{{\"n\":{}}}", k), Step::Until(t) => format!("{{\"until\":{}}}", t), Step::AddValid(o, id) => format!("{{\"add_at_plus\":[{},{}]}}", o, id), Step::AddPast(id) => format!("{{\"add_past\":{}}}", id) }).collect();
    format!("{{\"cqueue\":[{},{}],\"start_ns\":{},\"initial_events_time_id\":[{}],\"handler_spawns_id_delay_id\":[{}],\"builder_limits\":[{}],\"steps\":[{}]}}", sc.n, sc.t, sc.start, inits.join(","), spawns.join(","), lims.join(","), steps.join(","))
}

fn gen(r: &mut dyn FnMut() -> u64) -> Scenario {
    let params = [(1usize, 1u64), (2, 1), (3, 2), (4, 5), (1028, 2_500_000)];
    let (n, t) = params[(r() % params.len() as u64) as usize];
    let start = if r() % 4 == 0 { 3 + r() % 5 } else { 0 };
    let grid = [0u64, 0, 1, 1, 2, t, t, t + 1, n as u64 * t, n as u64 * t + 1, 2 * n as u64 * t];
    let mut next_id = 1u32;
    let mut inits = vec![];
    for _ in 0..(1 + r() % 4) { inits.push(Init { time: start + grid[(r() % grid.len() as u64) as usize], id: next_id }); next_id += 1; }
    let mut spawns: Vec<(u32, Vec<Spawn>)> = vec![];
    let mut frontier: Vec<u32> = inits.iter().map(|i| i.id).collect();
    let mut budget = 6;
    while let Some(id) = frontier.pop() {
        if budget == 0 { break; }
        if r() % 2 == 0 {
            let mut v = vec![];
            for _ in 0..(1 + r() % 3) { if budget == 0 { break; } v.push(Spawn { delay: [0u64, 0, 1, t, t + 1, n as u64 * t][(r() % 6) as usize], id: next_id }); frontier.insert(0, next_id); next_id += 1; budget -= 1; }
            spawns.push((id, v));
        }
    }
    let total = (next_id - 1) as usize;
    let maxt = start + 3 * n as u64 * t + 3;
    let mut rl = |r: &mut dyn FnMut() -> u64| -> Lim { if r() % 2 == 0 { Lim::Count((r() % (total as u64 + 2)) as usize) } else { Lim::Time(start + r() % (maxt - start + 1)) } };
    let mut builder_limits = vec![];
    match r() % 7 { 0 => {}, 1 => builder_limits.push(rl(r)), 2 => { builder_limits.push(rl(r)); builder_limits.push(rl(r)); }
        3 => builder_limits.push(Lim::And(Box::new(rl(r)), Box::new(rl(r)))),
        4 => builder_limits.push(Lim::Or(Box::new(rl(r)), Box::new(Lim::And(Box::new(rl(r)), Box::new(rl(r)))))),
        // a composite limit first, simple bounds added afterwards: the additions must compose by Or with the WHOLE tree
        5 => { builder_limits.push(Lim::And(Box::new(rl(r)), Box::new(rl(r)))); builder_limits.push(rl(r)); if r() % 2 == 0 { builder_limits.push(rl(r)); } }
        _ => { builder_limits.push(Lim::Or(Box::new(rl(r)), Box::new(rl(r)))); builder_limits.push(rl(r)); } }
    let mut steps = vec![];
    if r() % 3 != 0 {
        for _ in 0..(1 + r() % 4) {
            steps.push(match r() % 6 { 0 | 1 => Step::N((r() % 4) as usize), 2 | 3 => Step::Until(start + r() % (maxt - start + 1)), 4 => { let id = next_id; next_id += 1; Step::AddValid([0u64, 0, 1, t, n as u64 * t][(r() % 5) as usize], id) }, _ => Step::N(1) });
        }
        if r() % 10 == 0 { let id = next_id; steps.push(Step::AddPast(id)); }
    }
    Scenario { n, t, start, inits, spawns, builder_limits, steps }
}

fn main() {
    let args: Vec<String> = std::env::args().collect();
    std::panic::set_hook(Box::new(|_| {}));
    match args.get(1).map(|s| s.as_str()) {
        Some("search") => {
            let count: usize = args.get(2).and_then(|s| s.parse().ok()).unwrap_or(2000);
            let seed: u64 = args.get(3).and_then(|s| s.parse().ok()).unwrap_or(1);
            let filter = args.get(4).cloned().unwrap_or_default();
            let mut s = seed.wrapping_mul(6364136223846793005).wrapping_add(1442695040888963407) | 1;
            let mut rnd = move || { s ^= s << 13; s ^= s >> 7; s ^= s << 17; s };
            let mut other = String::new();
            for _ in 0..count {
                let sc = gen(&mut rnd);
                if let Err(mm) = run(&sc) {
                    if filter.is_empty() || mm.props.contains(filter.as_str()) {
                        println!("{{\"mismatch\":true,\"kind\":\"{}\",\"props\":\"{}\",\"scenario\":{},\"expected\":\"{}\",\"observed\":\"{}\"}}", mm.kind, mm.props, sc_json(&sc), mm.expected.replace('"', "'"), mm.observed.replace('"', "'"));
                        std::process::exit(3);
                    } else if other.is_empty() { other = format!("{} ({})", mm.kind, mm.props); }
                }
            }
            println!("{{\"mismatch\":false,\"scenarios\":{},\"other\":\"{}\"}}", count, other);
        }
        _ => { eprintln!("usage: rt_driver search <scenarios> <seed> [PROP]"); std::process::exit(2); }
    }
}
