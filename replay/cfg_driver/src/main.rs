//! Bounded replay for property C17 (never counted as proof): random FLAT dotted-key configurations and module paths on the real
//! `des_net_utils::props::{Cfg, Props}`; what a module receives is compared with the property statement read literally:
//!   a module with path P receives property `name` iff some entry has key = K1.K2...Kn.name (n = |P|, every Ki == Pi or Ki == "<any>"),
//!   and its value is the value of such an entry.
//! usage: cfg_driver search <count> <seed>   |   cfg_driver replay '<json scenario>'
use des_net_utils::props::{Cfg, Props};
use serde_yml::{Mapping, Value};
use std::panic::{catch_unwind, AssertUnwindSafe};

struct Rng(u64);
impl Rng {
    fn next(&mut self) -> u64 {
        self.0 ^= self.0 << 13;
        self.0 ^= self.0 >> 7;
        self.0 ^= self.0 << 17;
        self.0
    }
    fn below(&mut self, n: u64) -> u64 {
        self.next() % n
    }
}

const ANY: &str = "<any>";
// sibling names that are textual prefixes of each other, one non-ASCII
const NAMES: [&str; 8] = ["a", "ab", "abc", "b", "bob", "n", "né", "x1"];
const PROPS: [&str; 5] = ["x", "y", "addr", "x.y", "b"];

#[derive(Clone, Debug)]
struct Scenario {
    entries: Vec<(String, i64)>,
    path: Vec<String>,
    second: Vec<(String, i64)>, // entries of a second configuration captured into the same Props afterwards
    preset: Option<(String, i64)>, // a property the module wrote (typed, i64) before any configuration arrived
}

fn gen(r: &mut Rng) -> Scenario {
    let depth = 1 + r.below(4) as usize;
    let path: Vec<String> = (0..depth).map(|_| NAMES[r.below(NAMES.len() as u64) as usize].to_string()).collect();
    let mk = |r: &mut Rng, n: usize, base: i64| -> Vec<(String, i64)> {
        let mut v: Vec<(String, i64)> = Vec::new();
        for e in 0..n {
            // most entries are derived from the module's path: same depth or off by one, single segments replaced by a
            // sibling name (often one that shares a prefix), by <any>, or kept
            let d = match r.below(7) { 0 => depth.saturating_sub(1), 1 => depth + 1, 2 => depth + 2, _ => depth };
            let mut segs: Vec<String> = Vec::new();
            for j in 0..d {
                let s = match r.below(8) {
                    0 | 1 => ANY.to_string(),
                    2 | 3 => NAMES[r.below(NAMES.len() as u64) as usize].to_string(),
                    _ => path.get(j).cloned().unwrap_or_else(|| NAMES[r.below(NAMES.len() as u64) as usize].to_string()),
                };
                segs.push(s);
            }
            segs.push(PROPS[r.below(PROPS.len() as u64) as usize].to_string());
            let key = segs.join(".");
            if v.iter().any(|(k, _)| *k == key) {
                continue;
            }
            v.push((key, base + e as i64));
        }
        v
    };
    let n = 1 + r.below(7) as usize;
    let entries = mk(r, n, 100);
    let second = if r.below(3) == 0 { let n = 1 + r.below(4) as usize; mk(r, n, 200) } else { Vec::new() };
    let preset = if r.below(5) == 0 { Some((PROPS[r.below(PROPS.len() as u64) as usize].to_string(), 7 + r.below(3) as i64)) } else { None };
    Scenario { entries, path, second, preset }
}

fn to_value(entries: &[(String, i64)]) -> Value {
    let mut m = Mapping::new();
    for (k, v) in entries {
        m.insert(Value::String(k.clone()), Value::Number((*v).into()));
    }
    Value::Mapping(m)
}

/// the property statement, literally: names this module must receive, with the values each may have
fn reference(entries: &[(String, i64)], path: &[String]) -> Vec<(String, Vec<i64>)> {
    let mut out: Vec<(String, Vec<i64>)> = Vec::new();
    for (k, v) in entries {
        let segs: Vec<&str> = k.split('.').collect();
        if segs.len() <= path.len() {
            continue;
        }
        if !(0..path.len()).all(|j| segs[j] == path[j] || segs[j] == ANY) {
            continue;
        }
        let name = segs[path.len()..].join(".");
        if name.contains(ANY) {
            continue;
        }
        match out.iter_mut().find(|(n, _)| *n == name) {
            Some((_, vs)) => vs.push(*v),
            None => out.push((name, vec![*v])),
        }
    }
    out
}

fn esc(s: &str) -> String {
    s.replace('\\', "\\\\").replace('"', "\\\"")
}

fn scen_json(s: &Scenario) -> String {
    let e = |v: &Vec<(String, i64)>| v.iter().map(|(k, x)| format!("[\"{}\",{}]", esc(k), x)).collect::<Vec<_>>().join(",");
    let pre = match &s.preset { Some((k, v)) => format!("[[\"{}\",{}]]", esc(k), v), None => "[]".to_string() };
    format!("{{\"path\":[{}],\"entries\":[{}],\"second\":[{}],\"preset\":{}}}", s.path.iter().map(|p| format!("\"{}\"", esc(p))).collect::<Vec<_>>().join(","), e(&s.entries), e(&s.second), pre)
}

fn run(s: &Scenario) -> Result<(), (String, String, String)> {
    let path: Vec<&str> = s.path.iter().map(|p| p.as_str()).collect();
    let got = catch_unwind(AssertUnwindSafe(|| {
        let mut props = Props::default();
        if let Some((k, v)) = &s.preset {
            props.get::<i64>(k).expect("fresh property").or(*v);
        }
        Cfg::new(to_value(&s.entries)).capture_for(&path, &mut props);
        if !s.second.is_empty() {
            Cfg::new(to_value(&s.second)).capture_for(&path, &mut props);
        }
        let retyped = match &s.preset {
            Some((k, _)) => props.get::<String>(k).is_ok(),
            None => false,
        };
        let mut keys = props.keys();
        keys.sort();
        let mut out: Vec<(String, Option<i64>)> = Vec::new();
        for k in keys {
            let v = props.get_raw(&k).as_value().and_then(|v| v.as_i64());
            out.push((k, v));
        }
        (out, retyped)
    }));
    let (got, retyped) = match got {
        Ok(g) => g,
        Err(_) => return Err(("capture-panicked".into(), "Cfg::capture_for returns for every configuration and path".into(), "panic".into())),
    };
    let mut all = s.entries.clone();
    all.extend(s.second.iter().cloned());
    let mut want = reference(&all, &s.path);
    if let Some((k, v)) = &s.preset {
        // written first, with a type: the configuration neither replaces the value nor changes the type
        want.retain(|(n, _)| n != k);
        want.push((k.clone(), vec![*v]));
        if retyped {
            return Err(("typed-property-reinterpreted".into(), format!("`{}` was written as i64: reading it as String is an error", k), "Ok".into()));
        }
    }
    for (name, v) in &got {
        match want.iter().find(|(n, _)| n == name) {
            None => return Err(("foreign-entry-delivered".into(), format!("no property `{}` (no entry addresses this module with that name)", name), format!("`{}` = {:?}", name, v))),
            Some((_, vs)) => {
                if !v.map(|x| vs.contains(&x)).unwrap_or(false) {
                    return Err(("value-of-no-matching-entry".into(), format!("`{}` in {:?}", name, vs), format!("{:?}", v)));
                }
            }
        }
    }
    for (name, vs) in &want {
        if !got.iter().any(|(n, _)| n == name) {
            return Err(("addressed-entry-not-delivered".into(), format!("`{}` in {:?}", name, vs), "absent".into()));
        }
    }
    Ok(())
}

fn parse_list(s: &str) -> Vec<(String, i64)> {
    // [["k",1],["k2",2]]
    let mut out = Vec::new();
    let mut rest = s;
    while let Some(i) = rest.find("[\"") {
        let r2 = &rest[i + 2..];
        let j = r2.find("\",").unwrap();
        let key = r2[..j].replace("\\\"", "\"").replace("\\\\", "\\");
        let r3 = &r2[j + 2..];
        let e = r3.find(']').unwrap();
        out.push((key, r3[..e].trim().parse().unwrap()));
        rest = &r3[e + 1..];
    }
    out
}

fn field<'a>(j: &'a str, name: &str) -> &'a str {
    let k = format!("\"{}\":[", name);
    let i = j.find(&k).map(|i| i + k.len() - 1).unwrap();
    // matching bracket
    let b = j.as_bytes();
    let mut d = 0;
    let mut instr = false;
    let mut e = i;
    for x in i..b.len() {
        let c = b[x];
        if instr {
            if c == b'\\' { continue; }
            if c == b'"' && b[x - 1] != b'\\' { instr = false; }
            continue;
        }
        if c == b'"' { instr = true; }
        if c == b'[' { d += 1; }
        if c == b']' { d -= 1; if d == 0 { e = x; break; } }
    }
    &j[i..=e]
}

fn main() {
    std::panic::set_hook(Box::new(|_| {}));
    let a: Vec<String> = std::env::args().collect();
    if a.len() >= 3 && a[1] == "replay" {
        let j = &a[2];
        let path: Vec<String> = field(j, "path").trim_matches(|c| c == '[' || c == ']').split(',').filter(|s| !s.is_empty()).map(|s| s.trim().trim_matches('"').to_string()).collect();
        let preset = if j.contains("\"preset\":[") { parse_list(field(j, "preset")).into_iter().next() } else { None };
        let s = Scenario { path, entries: parse_list(field(j, "entries")), second: parse_list(field(j, "second")), preset };
        match run(&s) {
            Ok(()) => println!("{{\"mismatch\":false}}"),
            Err((k, e, o)) => println!("{{\"mismatch\":true,\"kind\":\"{}\",\"expected\":\"{}\",\"observed\":\"{}\"}}", k, esc(&e), esc(&o)),
        }
        return;
    }
    let count: u64 = a.get(2).and_then(|s| s.parse().ok()).unwrap_or(1000);
    let seed: u64 = a.get(3).and_then(|s| s.parse().ok()).unwrap_or(1);
    let mut r = Rng(0x9E3779B97F4A7C15 ^ seed.wrapping_mul(0xD1B54A32D192ED03));
    let mut sample = String::new();
    for n in 0..count {
        let s = gen(&mut r);
        if n == 0 {
            sample = scen_json(&s);
        }
        if let Err((k, e, o)) = run(&s) {
            println!("{{\"mismatch\":true,\"kind\":\"{}\",\"props\":\"C17\",\"scenario_no\":{},\"scenario\":{},\"expected\":\"{}\",\"observed\":\"{}\"}}", k, n, scen_json(&s), esc(&e), esc(&o));
            return;
        }
    }
    println!("{{\"scenarios\":{},\"sample\":{}}}", count, sample);
}
