//! Bounded replay for the totality half of property C18 (never counted as proof): network descriptions generated from the NDL
//! grammar (leaf types with gates and gate clusters, an interface, a generic type, composite types with atom / cluster submodules,
//! atom, indexed and cluster-to-cluster connections, links, inheritance) and single-point mutations of them are parsed
//! (serde_yml -> ndl::def::Def) and elaborated (ndl::transform) on the real des-net-utils crate. Oracle: never a panic; an unmutated
//! description parses and elaborates to Ok with the declared number of top-level submodules.
//! usage: ndl_driver search <count> <seed>   |   ndl_driver replay <file with the YAML text>
use des_net_utils::ndl::{def::Def, transform};
use std::panic::{catch_unwind, AssertUnwindSafe};

struct Rng(u64);
impl Rng {
    fn next(&mut self) -> u64 {
        self.0 ^= self.0 << 13;
        self.0 ^= self.0 >> 7;
        self.0 ^= self.0 << 17;
        self.0
    }
    fn below(&mut self, n: u64) -> u64 {
        self.next() % n
    }
}

struct Gen {
    n: usize,
    has_y: bool,
    text: String,
    mutation: String,
    valid: bool,
    top_fields: usize,
}

fn gen(r: &mut Rng) -> Gen {
    let mutate = r.below(4) != 0;
    let kind = if mutate { 1 + r.below(30) } else { 0 };
    let m = |k: u64| kind == k;
    let mut t = String::new();
    let entry = if m(12) { "Nope" } else { "Top" };
    t += &format!("entry: {}\nmodules:\n", entry);
    // interface + leaves
    t += "  I:\n    gates:\n      - port\n";
    t += &format!("  L0:\n    inherit: {}\n    gates:\n      - extra\n", if m(14) { "Nope" } else { "I" });
    t += &format!("  L1:\n    gates:\n      - port\n      - {}\n", if m(4) { "\"in[0]\"" } else if m(13) { "\"in[x]\"" } else if m(23) { "\"in]\"" } else { "\"in[3]\"" });
    t += "  Bare:\n    gates:\n      - other\n";
    // generic type
    let gen_head = if m(15) { "G(T <- Nope)" } else if m(16) { "G(T <- I, T <- I)" } else if m(17) { "G(T <- I" } else if m(18) { "G(T < I)" } else { "G(T <- I)" };
    t += &format!("  \"{}\":\n{}    submodules:\n      c: {}\n    gates:\n      - up\n    connections:\n      - peers:\n          - up\n          - c/port\n", gen_head, if m(27) { "    inherit: T\n" } else { "" }, if m(25) { "\"T(L0)\"" } else { "T" });
    if m(26) {
        t += "  \"H(U <- I)\":\n    submodules:\n      d: \"G(U)\"\n";
    }
    // inheritance with connections: the child declares none of its own
    t += "  P:\n    submodules:\n      s: L1\n    gates:\n      - pg\n    connections:\n      - peers:\n          - pg\n          - s/port\n";
    t += "  Q:\n    inherit: P\n    gates:\n      - qg\n";
    // mid-level composite
    let n = 2 + r.below(3);
    let n2 = if m(5) { n + 1 } else { n };
    t += "  Mid:\n    submodules:\n";
    t += &format!("      \"a[{}]\": L1\n", n);
    t += &format!("      \"b[{}]\": {}\n", n2, if m(1) { "Nope" } else { "L1" });
    t += &format!("    gates:\n      - up\n      - \"wide[{}]\"\n", 3 * n);
    t += "    connections:\n";
    t += "      - peers:\n          - wide\n          - a/in\n";
    t += &format!("      - peers:\n          - a/port\n          - b/{}\n", if m(2) { "nope" } else { "port" });
    t += &format!("      - peers:\n          - up\n          - \"a[{}]/in[{}]\"\n", if m(3) { n } else { 0 }, if m(19) { 3 } else { 1 });
    if m(6) {
        t += "  Cyc:\n    submodules:\n      t: Top\n";
    }
    // top
    let garg = if m(7) { "G(L0" } else if m(8) { "G(G)" } else if m(9) { "G(Bare)" } else if m(10) { "G(L0, L0)" } else if m(20) { "G()" } else if m(21) { "G(L0,L1)" } else if m(22) { "G(Nope)" } else { "G(L0)" };
    t += "  Top:\n    submodules:\n";
    t += "      mid: Mid\n";
    t += &format!("      g: \"{}\"\n", garg);
    t += &format!("      {}: L1\n", if m(24) { "\"x]\"" } else { "x" });
    t += "      q: Q\n";
    let mut top_fields = 4;
    if m(26) {
        t += "      h: \"H(L0)\"\n";
        top_fields += 1;
    }
    if m(6) {
        t += "      cy: Cyc\n";
        top_fields += 1;
    }
    let has_y = r.below(2) == 0;
    if has_y {
        t += "      \"y[2]\": L0\n";
        top_fields += 1;
    }
    t += "    connections:\n";
    t += &format!("      - peers:\n          - mid/up\n          - g/up\n        link: {}\n", if m(11) { "Nope" } else { "Fast" });
    t += &format!("      - peers:\n          - x/port\n          - \"{}\"\n", if m(28) { "" } else if m(29) { "/" } else if m(30) { " " } else { "x/in[2]" });
    t += "links:\n  Fast:\n    latency: 0.01\n    jitter: 0.0\n    bitrate: 100000\n";
    Gen { n: n as usize, has_y, text: t, mutation: if kind == 0 { "none".into() } else { format!("m{}", kind) }, valid: kind == 0, top_fields }
}

fn ep(e: &des_net_utils::ndl::tree::ConnectionEndpoint) -> String {
    e.accessors.iter().map(|a| a.as_name()).collect::<Vec<_>>().join("/")
}

fn cons(n: &des_net_utils::ndl::tree::Node) -> Vec<String> {
    let mut v: Vec<String> = n
        .connections
        .iter()
        .map(|c| {
            let (a, b) = (ep(&c.peers[0]), ep(&c.peers[1]));
            let l = match &c.link {
                Some(l) => format!(" link(latency={},jitter={},bitrate={})", l.latency, l.jitter, l.bitrate),
                None => String::new(),
            };
            if a <= b { format!("{} <-> {}{}", a, b, l) } else { format!("{} <-> {}{}", b, a, l) }
        })
        .collect();
    v.sort();
    v
}

fn fields(n: &des_net_utils::ndl::tree::Node) -> Vec<String> {
    let mut v: Vec<String> = n.submodules.iter().map(|s| format!("{}:{}", s.name, &*s.typ.typ)).collect();
    v.sort();
    v
}

fn gates(n: &des_net_utils::ndl::tree::Node) -> Vec<String> {
    let mut v: Vec<String> = n.gates.iter().map(|g| g.to_string()).collect();
    v.sort();
    v
}

/// what the template denotes (the reference for an unmutated description)
fn expected(n: usize, has_y: bool) -> Vec<String> {
    let mut out = Vec::new();
    let mut top = vec!["g:G".to_string(), "mid:Mid".to_string(), "q:Q".to_string(), "x:L1".to_string()];
    if has_y {
        top.push("y[2]:L0".to_string());
    }
    top.sort();
    out.push(format!("Top fields {:?}", top));
    out.push(format!("Top connections {:?}", vec!["g/up <-> mid/up link(latency=0.01,jitter=0,bitrate=100000)".to_string(), "x/in[2] <-> x/port".to_string()]));
    let mut mc: Vec<String> = (0..n).map(|i| format!("a[{}]/port <-> b[{}]/port", i, i)).collect();
    mc.push("a[0]/in[1] <-> up".to_string());
    for k in 0..3 * n {
        mc.push(format!("a[{}]/in[{}] <-> wide[{}]", k / 3, k % 3, k));
    }
    mc.sort();
    out.push(format!("Mid fields {:?}", vec![format!("a[{}]:L1", n), format!("b[{}]:L1", n)]));
    out.push(format!("Mid gates {:?}", vec!["up".to_string(), format!("wide[{}]", 3 * n)]));
    out.push(format!("Mid connections {:?}", mc));
    out.push(format!("G fields {:?}", vec!["c:L0".to_string()]));
    out.push(format!("G connections {:?}", vec!["c/port <-> up".to_string()]));
    out.push(format!("G.c gates {:?}", vec!["extra".to_string(), "port".to_string()]));
    out.push(format!("x gates {:?}", vec!["in[3]".to_string(), "port".to_string()]));
    out.push(format!("Q fields {:?}", vec!["s:L1".to_string()]));
    out.push(format!("Q gates {:?}", vec!["pg".to_string(), "qg".to_string()]));
    out.push(format!("Q connections {:?}", vec!["pg <-> s/port".to_string()]));
    out
}

fn observed(net: &des_net_utils::ndl::tree::Node) -> Vec<String> {
    let mut out = Vec::new();
    out.push(format!("{} fields {:?}", &*net.typ, fields(net)));
    out.push(format!("Top connections {:?}", cons(net)));
    let find = |n: &des_net_utils::ndl::tree::Node, name: &str| n.submodules.iter().find(|s| s.name.ident == name).map(|s| s.typ.clone());
    if let Some(mid) = find(net, "mid") {
        out.push(format!("Mid fields {:?}", fields(&mid)));
        out.push(format!("Mid gates {:?}", gates(&mid)));
        out.push(format!("Mid connections {:?}", cons(&mid)));
    }
    if let Some(g) = find(net, "g") {
        out.push(format!("G fields {:?}", fields(&g)));
        out.push(format!("G connections {:?}", cons(&g)));
        if let Some(c) = find(&g, "c") {
            out.push(format!("G.c gates {:?}", gates(&c)));
        }
    }
    if let Some(x) = find(net, "x") {
        out.push(format!("x gates {:?}", gates(&x)));
    }
    if let Some(q) = find(net, "q") {
        out.push(format!("Q fields {:?}", fields(&q)));
        out.push(format!("Q gates {:?}", gates(&q)));
        out.push(format!("Q connections {:?}", cons(&q)));
    }
    out
}

fn esc(s: &str) -> String {
    s.replace('\\', "\\\\").replace('"', "\\\"").replace('\n', "\\n")
}

fn run(text: &str, valid: bool, top_fields: usize, exp: Option<Vec<String>>) -> Result<String, (String, String, String)> {
    let res = catch_unwind(AssertUnwindSafe(|| {
        let def: Def = match serde_yml::from_str(text) {
            Ok(d) => d,
            Err(e) => return Err(format!("parse error: {}", e)),
        };
        match transform(&def) {
            Ok(net) => Ok((net.submodules.len(), observed(&net))),
            Err(e) => Err(format!("elaboration error: {:?}", e)),
        }
    }));
    match res {
        Err(_) => Err(("ndl-panicked".into(), "an elaborated network or a descriptive error".into(), "panic".into())),
        Ok(Ok((n, obs))) => {
            if let (true, Some(exp)) = (valid, exp) {
                for (e, o) in exp.iter().zip(obs.iter()) {
                    if e != o {
                        return Err(("ndl-network-differs-from-description".into(), e.clone(), o.clone()));
                    }
                }
                if exp.len() != obs.len() {
                    return Err(("ndl-network-differs-from-description".into(), format!("{} parts", exp.len()), format!("{} parts", obs.len())));
                }
            }
            if !valid {
                return Err(("ndl-invalid-description-accepted".into(), "a descriptive error".into(), format!("Ok ({} submodules)", n)));
            }
            if valid && n != top_fields {
                return Err(("ndl-top-level-submodules".into(), format!("{} submodules under the entry module", top_fields), format!("{}", n)));
            }
            Ok(format!("ok:{}", n))
        }
        Ok(Err(e)) => {
            if valid {
                return Err(("ndl-valid-description-rejected".into(), "Ok".into(), e));
            }
            Ok(e)
        }
    }
}

fn main() {
    if std::env::var("DRIVER_VERBOSE").is_err() {
        std::panic::set_hook(Box::new(|_| {}));
    }
    let a: Vec<String> = std::env::args().collect();
    if a.len() >= 3 && a[1] == "replay" {
        let text = std::fs::read_to_string(&a[2]).unwrap();
        // an unmutated description is replayed against the network it denotes: replay <file> <n> <has_y>
        let exp = match (a.get(3).and_then(|x| x.parse::<usize>().ok()), a.get(4)) {
            (Some(n), Some(y)) => Some(expected(n, y == "true")),
            _ => None,
        };
        let valid = exp.is_some();
        let tf = if a.get(4).map(|y| y == "true").unwrap_or(false) { 5 } else { 4 };
        match run(&text, valid, tf, exp) {
            Ok(o) => println!("{{\"mismatch\":false,\"outcome\":\"{}\"}}", esc(&o)),
            Err((k, e, o)) => println!("{{\"mismatch\":true,\"kind\":\"{}\",\"expected\":\"{}\",\"observed\":\"{}\"}}", k, esc(&e), esc(&o)),
        }
        return;
    }
    let count: u64 = a.get(2).and_then(|s| s.parse().ok()).unwrap_or(1000);
    let seed: u64 = a.get(3).and_then(|s| s.parse().ok()).unwrap_or(1);
    let all = a.get(4).map(|s| s == "all").unwrap_or(false);
    let mut r = Rng(0x9E3779B97F4A7C15 ^ seed.wrapping_mul(0xD1B54A32D192ED03));
    let mut sample = String::new();
    let mut seen: Vec<String> = Vec::new();
    for n in 0..count {
        let g = gen(&mut r);
        if n == 0 {
            sample = esc(&g.text);
        }
        if let Err((k, e, o)) = run(&g.text, g.valid, g.top_fields, if g.valid { Some(expected(g.n, g.has_y)) } else { None }) {
            let line = format!("{{\"mismatch\":true,\"kind\":\"{}\",\"props\":\"C18\",\"scenario_no\":{},\"mutation\":\"{}\",\"scenario\":{{\"n\":{},\"has_y\":{},\"ndl_text\":\"{}\"}},\"expected\":\"{}\",\"observed\":\"{}\"}}", k, n, g.mutation, g.n, g.has_y, esc(&g.text), esc(&e), esc(&o));
            if all {
                if !seen.contains(&g.mutation) {
                    seen.push(g.mutation.clone());
                    println!("{}", line);
                }
                continue;
            }
            println!("{}", line);
            return;
        }
    }
    println!("{{\"scenarios\":{},\"sample\":\"{}\"}}", count, sample);
}
