//! gate_driver — bounded replay for C08 on the REAL `des` crate: one gate chain of 1..6 hops between two endpoint gates, transit gates
//! on random modules, every hop with or without a channel (latency, bitrate; jitter 0), hops connected in random order and orientation.
//! Each end sends one message into the chain (at different times, so every channel is idle). Checked: delivered exactly once to the
//! owner of the far end, at send time + sum over the hops of (latency + size*8/bitrate), header = (sender, receiver, final gate);
//! the two path iterators are mirror images; connecting an already connected pair again changes nothing; a third peer is refused.
//! Never counts as proof.
//!
//! usage: gate_driver search <scenarios> <seed>     exit 0 = no mismatch, 3 = mismatch (JSON on stdout)
use des::prelude::*;
use std::sync::Mutex;
use std::time::Duration as StdDuration;

#[derive(Clone, Debug)]
struct Hop { latency_us: u64, bitrate: usize, has_channel: bool }

// (receiving module, msg id, arrival ns, sender module id, receiver module id, last gate name)
static LOG: Mutex<Vec<(String, u16, u64, u16, u16, String)>> = Mutex::new(Vec::new());
// per module: sends to do at start: (gate name, msg id, size, at_us)
static SENDS: Mutex<Vec<(String, String, u16, usize, u64)>> = Mutex::new(Vec::new());
static IDS: Mutex<Vec<(String, u16)>> = Mutex::new(Vec::new());
static BOUNCE_GATE: Mutex<String> = Mutex::new(String::new());

struct M { path: String }
impl Module for M {
    fn at_sim_start(&mut self, _: usize) {
        IDS.lock().unwrap().push((self.path.clone(), current().id().0));
        let sends = SENDS.lock().unwrap().clone();
        for (m, gate, id, size, at) in sends.iter() {
            if *m == self.path {
                send_in(Message::default().id(*id).with_content(vec![0u8; *size]), gate.as_str(), StdDuration::from_micros(*at));
            }
        }
    }
    fn handle_message(&mut self, msg: Message) {
        let h = msg.header();
        LOG.lock().unwrap().push((self.path.clone(), h.id, SimTime::now().as_nanos() as u64, h.sender_module_id.0, h.receiver_module_id.0,
            h.last_gate.as_ref().map(|g| g.name().to_string()).unwrap_or_default()));
        // message 1 is bounced once: the SAME message object (it already carries a receiver id) goes back through the chain as message 3
        if h.id == 1 && !BOUNCE_GATE.lock().unwrap().is_empty() {
            let back = BOUNCE_GATE.lock().unwrap().clone();
            let mut m = msg;
            m.header_mut().id = 3;
            send(m, back.as_str());
        }
    }
}

fn busy_ns(bitrate: usize, len: usize) -> u64 {
    if bitrate == 0 { 0 } else { StdDuration::from_secs_f64((len * 8) as f64 / bitrate as f64).as_nanos() as u64 }
}

fn fail(kind: &str, scen: &str, exp: String, obs: String) -> ! {
    println!("{{\"mismatch\":true,\"kind\":\"{}\",\"props\":\"C08\",\"scenario\":{{\"gate_chain\":\"{}\"}},\"expected\":\"{}\",\"observed\":\"{}\"}}", kind, scen.replace('"', "'"), exp.replace('"', "'"), obs.replace('"', "'"));
    std::process::exit(3);
}

fn main() {
    let args: Vec<String> = std::env::args().collect();
    let count: usize = args.get(2).and_then(|s| s.parse().ok()).unwrap_or(2000);
    let seed: u64 = args.get(3).and_then(|s| s.parse().ok()).unwrap_or(1);
    let mut s = seed.wrapping_mul(6364136223846793005).wrapping_add(1442695040888963407) | 1;
    let mut rnd = move || { s ^= s << 13; s ^= s >> 7; s ^= s << 17; s };
    if std::env::var("GATE_DRIVER_SHOW_PANICS").is_err() { std::panic::set_hook(Box::new(|_| {})); }
    let mut last_scen = String::new();
    for it in 0..count {
        let nmod = 2 + (rnd() % 3) as usize;
        let paths: Vec<String> = (0..nmod).map(|i| format!("m{}", i)).collect();
        let k = if rnd() % 5 == 0 { 9 + (rnd() % 6) as usize } else { 1 + (rnd() % 6) as usize }; // hops; gates g0..gk (every fifth chain has 9..14 hops)
        let owners: Vec<usize> = (0..=k).map(|_| (rnd() % nmod as u64) as usize).collect();
        let hops: Vec<Hop> = (0..k).map(|_| { let has = rnd() % 2 == 0; Hop { has_channel: has, latency_us: if has { 100 + (rnd() % 20) * 100 } else { 0 }, bitrate: if has && rnd() % 2 == 0 { [8_000_000usize, 1_000_000][(rnd() % 2) as usize] } else { 0 } } }).collect();
        let (size_a, size_b) = ([0usize, 36, 436][(rnd() % 3) as usize], [0usize, 100, 1000][(rnd() % 3) as usize]);
        let scen = format!("modules={:?} gates(owner)={:?} hops={:?} sizes=({},{})", paths, owners.iter().enumerate().map(|(i, o)| format!("g{}@{}", i, paths[*o])).collect::<Vec<_>>(), hops, size_a, size_b);
        last_scen = scen.clone();
        LOG.lock().unwrap().clear();
        IDS.lock().unwrap().clear();
        // A = owner of g0 sends id 1 at 0; B = owner of gk sends id 2 at 1 s (every channel is idle again by then)
        // every third scenario: both ends send at time 0 (the two directions of a hop have channels of their own); no bounce then,
        // so that nothing else uses the backward direction
        let simul = rnd() % 3 == 0;
        let t2: u64 = if simul { 0 } else { 1_000_000 };
        *SENDS.lock().unwrap() = vec![(paths[owners[0]].clone(), "g0".into(), 1, size_a, 0), (paths[owners[k]].clone(), format!("g{}", k), 2, size_b, t2)];
        *BOUNCE_GATE.lock().unwrap() = if simul { String::new() } else { format!("g{}", k) };
        let mut sim = Sim::new(());
        for p in paths.iter() { sim.node(p.as_str(), M { path: p.clone() }); }
        let gates: Vec<GateRef> = (0..=k).map(|i| sim.gate(paths[owners[i]].as_str(), &format!("g{}", i))).collect();
        let mut order: Vec<usize> = (0..k).collect();
        for i in (1..order.len()).rev() { let j = (rnd() % (i as u64 + 1)) as usize; order.swap(i, j); }
        for &h in order.iter() {
            let ch = if hops[h].has_channel { Some(Channel::new(ChannelMetrics::new(hops[h].bitrate, StdDuration::from_micros(hops[h].latency_us), StdDuration::ZERO, ChannelDropBehaviour::Queue(None)))) } else { None };
            if rnd() % 2 == 0 { gates[h].clone().connect(gates[h + 1].clone(), ch); } else { gates[h + 1].clone().connect(gates[h].clone(), ch); }
        }
        // idempotent: connecting a connected pair again (either orientation) changes nothing
        let h = (rnd() % k as u64) as usize;
        if rnd() % 2 == 0 { gates[h].clone().connect(gates[h + 1].clone(), None); } else { gates[h + 1].clone().connect(gates[h].clone(), None); }
        // mirror image of the two walks
        let fwd: Vec<String> = std::iter::once("g0".to_string()).chain(gates[0].path_iter().map(|it| it.map(|c| c.endpoint.name().to_string()).collect::<Vec<_>>()).unwrap_or_default()).collect();
        let mut bwd: Vec<String> = std::iter::once(format!("g{}", k)).chain(gates[k].path_iter().map(|it| it.map(|c| c.endpoint.name().to_string()).collect::<Vec<_>>()).unwrap_or_default()).collect();
        let want: Vec<String> = (0..=k).map(|i| format!("g{}", i)).collect();
        if fwd != want { fail("chain-walk-forward", &scen, format!("{:?}", want), format!("{:?}", fwd)); }
        bwd.reverse();
        if bwd != want { fail("chain-walk-backward-is-not-the-mirror-image", &scen, format!("{:?}", want), format!("reversed backward walk {:?}", bwd)); }
        // a transit gate (two peers) refuses a third peer (tried on a separate chain: the refusal is a panic while the gate's lock is held)
        {
            let x: Vec<GateRef> = (0..3).map(|i| sim.gate(paths[0].as_str(), &format!("x{}", i))).collect();
            x[0].clone().connect(x[1].clone(), None);
            x[2].clone().connect(x[1].clone(), None);
            let extra = sim.gate(paths[0].as_str(), "extra");
            let g = x[1].clone();
            let r = std::panic::catch_unwind(std::panic::AssertUnwindSafe(move || g.connect(extra, None)));
            if r.is_ok() { fail("third-peer-accepted", &scen, "connect on a gate with two peers panics".into(), "accepted".into()); }
        }
        drop(gates);
        let res = std::panic::catch_unwind(std::panic::AssertUnwindSafe(move || Builder::seeded(1).quiet().build(sim.freeze()).run()));
        if res.is_err() { fail("run-panicked", &scen, "run() returns".into(), "panic".into()); }
        let ids = IDS.lock().unwrap().clone();
        let id_of = |p: &str| ids.iter().find(|e| e.0 == p).map(|e| e.1).unwrap_or(0);
        let mut got = LOG.lock().unwrap().clone();
        got.sort_by_key(|e| e.1);
        let fwd_delay: u64 = hops.iter().map(|h| h.latency_us * 1000 + busy_ns(h.bitrate, size_a + 64)).sum();
        let bwd_delay: u64 = hops.iter().map(|h| h.latency_us * 1000 + busy_ns(h.bitrate, size_b + 64)).sum();
        let (a, b) = (paths[owners[0]].clone(), paths[owners[k]].clone());
        let bounce_delay: u64 = hops.iter().map(|h| h.latency_us * 1000 + busy_ns(h.bitrate, size_a + 64)).sum();
        let mut want = vec![
            (b.clone(), 1u16, fwd_delay, id_of(&a), id_of(&b), format!("g{}", k)),
            (a.clone(), 2u16, t2 * 1000 + bwd_delay, id_of(&b), id_of(&a), "g0".to_string()),
        ];
        if !simul { want.push((a.clone(), 3u16, fwd_delay + bounce_delay, id_of(&b), id_of(&a), "g0".to_string())); }
        if got != want { fail("delivery", &scen, format!("(receiver, msg, arrival_ns, sender_id, receiver_id, final_gate) {:?}", want), format!("{:?}", got)); }
    }
    println!("{{\"mismatch\":false,\"scenarios\":{},\"other\":\"\",\"sample\":\"{}\"}}", count, last_scen.replace('"', "'"));
}
