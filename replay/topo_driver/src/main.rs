//! topo_driver — bounded replay for C19 on the REAL `des` crate: random simulations (2..8 modules, some nested), random gate chains
//! (0..3 transit gates, every 7th scenario one chain with 17..24 transit gates, self-links, parallel links, unconnected gates)
//! connected in random order and orientation. The topology views (`Globals::topology` = `Topology::from_modules`,
//! `Topology::spanned`) and the queries (`connected`, `bidirectional`, `filter_edges`, `filter_nodes`, `dijkstra`, `edges_for`)
//! are compared with a reference computed from the list of chains the driver built. Never counts as proof.
//!
//! usage: topo_driver search <scenarios> <seed>     exit 0 = no mismatch, 3 = mismatch (JSON on stdout)
use des::prelude::*;
use std::collections::{BTreeMap, BTreeSet, VecDeque};

struct M;
impl Module for M {}

#[derive(Clone, Debug)]
struct Chain { gates: Vec<(usize, String)> } // (owner module index, gate name) from one endpoint to the other

type E = (String, String, String, String); // from module, from gate path, to module, to gate path

fn reach(n: usize, adj: &Vec<Vec<usize>>, s: usize) -> Vec<Option<usize>> {
    let mut d = vec![None; n];
    let mut q = VecDeque::new();
    d[s] = Some(0);
    q.push_back(s);
    while let Some(u) = q.pop_front() {
        for &v in adj[u].iter() { if d[v].is_none() { d[v] = Some(d[u].unwrap() + 1); q.push_back(v); } }
    }
    d
}

fn edges_of<N, C>(t: &Topology<N, C>) -> Vec<E> {
    let mut v: Vec<E> = t.edges().map(|e| (e.from.module().path().to_string(), e.from.gate().path().to_string(), e.to.module().path().to_string(), e.to.gate().path().to_string())).collect();
    v.sort();
    v
}

fn fail(kind: &str, scen: &str, exp: String, obs: String) -> ! {
    println!("{{\"mismatch\":true,\"kind\":\"{}\",\"props\":\"C19\",\"scenario\":{{\"modules_and_chains\":\"{}\"}},\"expected\":\"{}\",\"observed\":\"{}\"}}", kind, scen.replace('"', "'"), exp.replace('"', "'"), obs.replace('"', "'"));
    std::process::exit(3);
}

fn main() {
    let args: Vec<String> = std::env::args().collect();
    let count: usize = args.get(2).and_then(|s| s.parse().ok()).unwrap_or(2000);
    let seed: u64 = args.get(3).and_then(|s| s.parse().ok()).unwrap_or(1);
    let mut s = seed.wrapping_mul(6364136223846793005).wrapping_add(1442695040888963407) | 1;
    let mut rnd = move || { s ^= s << 13; s ^= s >> 7; s ^= s << 17; s };
    let mut last_scen = String::new();
    for it in 0..count {
        // ---- scenario
        let nmod = 2 + (rnd() % 7) as usize;
        let mut paths: Vec<String> = vec![];
        for i in 0..nmod {
            if i >= 1 && rnd() % 4 == 0 {
                let p = (rnd() % i as u64) as usize;
                if !paths[p].contains('.') { paths.push(format!("{}.c{}", paths[p], i)); continue; }
            }
            paths.push(format!("m{}", i));
        }
        let nchains = (rnd() % (2 * nmod as u64 + 1)) as usize;
        let mut chains: Vec<Chain> = vec![];
        let mut gk = 0usize;
        for c in 0..nchains {
            let a = (rnd() % nmod as u64) as usize;
            let b = (rnd() % nmod as u64) as usize;
            let transit = if it % 7 == 3 && c == 0 { 17 + (rnd() % 8) as usize } else { (rnd() % 4) as usize };
            let mut gates = vec![];
            gk += 1; gates.push((a, format!("g{}", gk)));
            for _ in 0..transit { gk += 1; gates.push(((rnd() % nmod as u64) as usize, format!("g{}", gk))); }
            gk += 1; gates.push((b, format!("g{}", gk)));
            chains.push(Chain { gates });
        }
        let lonely: Vec<usize> = (0..nmod).filter(|_| rnd() % 5 == 0).collect();
        let scen = format!("modules={:?} chains={:?} unconnected_gates_on={:?}", paths, chains.iter().map(|c| c.gates.iter().map(|(o, g)| format!("{}:{}", paths[*o], g)).collect::<Vec<_>>()).collect::<Vec<_>>(), lonely);
        last_scen = scen.clone();
        // ---- build on the real crate
        let mut sim = Sim::new(());
        for p in paths.iter() { sim.node(p.as_str(), M); }
        // all hops of all chains, connected in random order and orientation
        let mut hops: Vec<((usize, String), (usize, String))> = vec![];
        for c in chains.iter() { for w in c.gates.windows(2) { hops.push((w[0].clone(), w[1].clone())); } }
        for i in (1..hops.len()).rev() { let j = (rnd() % (i as u64 + 1)) as usize; hops.swap(i, j); }
        for (x, y) in hops.iter() {
            let gx = sim.gate(paths[x.0].as_str(), &x.1);
            let gy = sim.gate(paths[y.0].as_str(), &y.1);
            if rnd() % 2 == 0 { gx.connect(gy, None); } else { gy.connect(gx, None); }
        }
        for (k, m) in lonely.iter().enumerate() { let _ = sim.gate(paths[*m].as_str(), &format!("u{}", k)); }
        // ---- reference
        let gp = |m: usize, g: &str| format!("{}.{}", paths[m], g);
        let mut ref_edges: Vec<E> = vec![];
        let mut adj: Vec<Vec<usize>> = vec![vec![]; nmod];
        for c in chains.iter() {
            let (a, ga) = c.gates.first().unwrap().clone();
            let (b, gb) = c.gates.last().unwrap().clone();
            ref_edges.push((paths[a].clone(), gp(a, &ga), paths[b].clone(), gp(b, &gb)));
            ref_edges.push((paths[b].clone(), gp(b, &gb), paths[a].clone(), gp(a, &ga)));
            adj[a].push(b);
            adj[b].push(a);
        }
        ref_edges.sort();
        let idx: BTreeMap<String, usize> = paths.iter().cloned().enumerate().map(|(i, p)| (p, i)).collect();
        // ---- global view
        let topo = sim.globals().topology();
        let mut got_nodes: Vec<String> = topo.nodes().iter().map(|n| n.module().path().to_string()).collect();
        got_nodes.sort();
        let mut want_nodes = paths.clone();
        want_nodes.sort();
        if got_nodes != want_nodes { fail("global-view-nodes", &scen, format!("{:?}", want_nodes), format!("{:?}", got_nodes)); }
        let got = edges_of(&topo);
        // gate paths: compare through the gate's own path() rendering of the reference gates
        let norm = |v: &Vec<E>| -> Vec<E> { v.clone() };
        let ref_named: Vec<E> = {
            let mut v: Vec<E> = vec![];
            for c in chains.iter() {
                let (a, ga) = c.gates.first().unwrap().clone();
                let (b, gb) = c.gates.last().unwrap().clone();
                let pa = sim.gate(paths[a].as_str(), &ga).path().to_string();
                let pb = sim.gate(paths[b].as_str(), &gb).path().to_string();
                v.push((paths[a].clone(), pa.clone(), paths[b].clone(), pb.clone()));
                v.push((paths[b].clone(), pb, paths[a].clone(), pa));
            }
            v.sort();
            v
        };
        let _ = (&ref_edges, gp);
        if norm(&got) != ref_named { fail("global-view-edges", &scen, format!("{:?}", ref_named), format!("{:?}", got)); }
        for e in topo.edges() {
            if e.to.module().path() != e.to.gate().owner().path() || e.from.module().path() != e.from.gate().owner().path() {
                fail("edge-endpoint-node-is-not-the-gate-owner", &scen, "every edge endpoint names the module that owns its gate".into(), format!("{} -> {} but gates {} -> {}", e.from.module().path(), e.to.module().path(), e.from.gate().path(), e.to.gate().path()));
            }
        }
        // ---- queries on the global view
        let all_reach = (0..nmod).all(|a| reach(nmod, &adj, a).iter().all(|d| d.is_some()));
        if topo.connected() != all_reach { fail("connected", &scen, format!("{}", all_reach), format!("{}", topo.connected())); }
        if !topo.bidirectional() { fail("bidirectional", &scen, "true (every chain yields an edge in each direction)".into(), "false".into()); }
        for src in 0..nmod {
            let d = reach(nmod, &adj, src);
            let dj = topo.dijkstra(paths[src].as_str());
            let mut keys: Vec<String> = dj.keys().map(|k| k.to_string()).collect();
            keys.sort();
            let mut want: Vec<String> = (0..nmod).filter(|&v| v != src && d[v].is_some()).map(|v| paths[v].clone()).collect();
            want.sort();
            if keys != want { fail("dijkstra-entries", &scen, format!("from {}: entries for exactly {:?}", paths[src], want), format!("{:?}", keys)); }
            for (k, e) in dj.iter() {
                let v = idx[&k.to_string()];
                let w = idx[&e.to.module().path().to_string()];
                let from = e.from.module().path().to_string();
                let dw = reach(nmod, &adj, w);
                let ok = from == paths[src] && dw[v].map(|x| x + 1) == d[v] && ref_named.iter().any(|r| r.0 == from && r.1 == e.from.gate().path().to_string() && r.2 == paths[w] && r.3 == e.to.gate().path().to_string());
                if !ok { fail("dijkstra-first-hop-not-on-a-minimum-hop-path", &scen, format!("from {} to {}: an edge leaving {} towards a node at distance {} from the target", paths[src], k, paths[src], d[v].unwrap() - 1), format!("edge {} -> {} (distance {:?} from the target)", from, paths[w], dw[v])); }
            }
        }
        // edges_for
        for m in 0..nmod {
            let mut g: Vec<E> = topo.edges_for(paths[m].as_str()).map(|e| (e.from.module().path().to_string(), e.from.gate().path().to_string(), e.to.module().path().to_string(), e.to.gate().path().to_string())).collect();
            g.sort();
            let w: Vec<E> = ref_named.iter().filter(|r| r.0 == paths[m]).cloned().collect();
            if g != w { fail("edges-for", &scen, format!("{:?}", w), format!("{:?}", g)); }
        }
        // ---- filter_edges, then the queries on the filtered graph
        {
            let mut t = topo.clone();
            let keep = |a: &str, b: &str| -> bool { (a.len() * 7 + b.len() * 13 + a.bytes().chain(b.bytes()).map(|x| x as usize).sum::<usize>() + it) % 3 != 0 };
            t.filter_edges(|e| keep(&e.from.gate().path().to_string(), &e.to.gate().path().to_string()));
            let w: Vec<E> = ref_named.iter().filter(|r| keep(&r.1, &r.3)).cloned().collect();
            let g = edges_of(&t);
            if g != w { fail("filter-edges", &scen, format!("{:?}", w), format!("{:?}", g)); }
            let mut fadj: Vec<Vec<usize>> = vec![vec![]; nmod];
            for r in w.iter() { fadj[idx[&r.0]].push(idx[&r.2]); }
            let bid = (0..nmod).all(|a| fadj[a].iter().all(|&b| fadj[b].contains(&a)));
            if t.bidirectional() != bid { fail("bidirectional-after-filter-edges", &scen, format!("{} for edges {:?}", bid, w), format!("{}", t.bidirectional())); }
            let con = (0..nmod).all(|a| reach(nmod, &fadj, a).iter().all(|d| d.is_some()));
            if t.connected() != con { fail("connected-after-filter-edges", &scen, format!("{} for edges {:?}", con, w), format!("{}", t.connected())); }
        }
        // ---- one-directional filters: only edges towards a later node / only edges towards an earlier node (node order of the view)
        for dir in 0..2 {
            let mut t = topo.clone();
            let order: Vec<String> = t.nodes().iter().map(|n| n.module().path().to_string()).collect();
            let pos = |p: &str| order.iter().position(|x| x == p).unwrap();
            let keep = |a: &str, b: &str| if dir == 0 { pos(a) < pos(b) } else { pos(a) > pos(b) };
            t.filter_edges(|e| keep(&e.from.module().path().to_string(), &e.to.module().path().to_string()));
            let w: Vec<E> = ref_named.iter().filter(|r| keep(&r.0, &r.2)).cloned().collect();
            let g = edges_of(&t);
            if g != w { fail("filter-edges-one-direction", &scen, format!("{:?}", w), format!("{:?}", g)); }
            let bid = w.is_empty();
            if t.bidirectional() != bid { fail("bidirectional-with-one-way-edges", &scen, format!("{} for edges {:?}", bid, w), format!("{}", t.bidirectional())); }
            let mut fadj: Vec<Vec<usize>> = vec![vec![]; nmod];
            for r in w.iter() { fadj[idx[&r.0]].push(idx[&r.2]); }
            let con = (0..nmod).all(|a| reach(nmod, &fadj, a).iter().all(|d| d.is_some()));
            if t.connected() != con { fail("connected-with-one-way-edges", &scen, format!("{} for edges {:?}", con, w), format!("{}", t.connected())); }
        }
        // ---- the view over a subset of the modules: edges to modules outside the subset are not recorded
        {
            let mask = rnd();
            let sel: Vec<usize> = (0..nmod).filter(|i| (mask >> i) & 1 == 1).collect();
            let refs: Vec<ModuleRef> = sel.iter().map(|&i| sim.get(&paths[i].as_str().into()).unwrap()).collect();
            let t = Topology::from_modules(&refs);
            let gn: Vec<String> = t.nodes().iter().map(|n| n.module().path().to_string()).collect();
            let wn: Vec<String> = sel.iter().map(|&i| paths[i].clone()).collect();
            if gn != wn { fail("subset-view-nodes", &scen, format!("{:?}", wn), format!("{:?}", gn)); }
            let w: Vec<E> = ref_named.iter().filter(|r| wn.contains(&r.0) && wn.contains(&r.2)).cloned().collect();
            let g = edges_of(&t);
            if g != w { fail("subset-view-edges", &scen, format!("modules {:?}: {:?}", wn, w), format!("{:?}", g)); }
        }
        // ---- filter_nodes
        {
            let mut t = topo.clone();
            let mask = rnd();
            let sel: BTreeSet<String> = (0..nmod).filter(|i| (mask >> i) & 1 == 1).map(|i| paths[i].clone()).collect();
            let order_before: Vec<String> = t.nodes().iter().map(|n| n.module().path().to_string()).filter(|p| sel.contains(p)).collect();
            t.filter_nodes(|n| sel.contains(&n.module().path().to_string()));
            let gn: Vec<String> = t.nodes().iter().map(|n| n.module().path().to_string()).collect();
            if gn != order_before { fail("filter-nodes-nodes", &scen, format!("keep {:?}", order_before), format!("{:?}", gn)); }
            let w: Vec<E> = ref_named.iter().filter(|r| sel.contains(&r.0) && sel.contains(&r.2)).cloned().collect();
            let g = edges_of(&t);
            if g != w { fail("filter-nodes-edges", &scen, format!("keep {:?}: {:?}", sel, w), format!("{:?}", g)); }
        }
        // ---- spanned view from a random root
        {
            let root = (rnd() % nmod as u64) as usize;
            let d = reach(nmod, &adj, root);
            let t = Topology::spanned(sim.get(&paths[root].as_str().into()).unwrap());
            let mut gn: Vec<String> = t.nodes().iter().map(|n| n.module().path().to_string()).collect();
            gn.sort();
            let mut wn: Vec<String> = (0..nmod).filter(|&v| d[v].is_some()).map(|v| paths[v].clone()).collect();
            wn.sort();
            if gn != wn { fail("spanned-view-nodes", &scen, format!("root {}: {:?}", paths[root], wn), format!("{:?}", gn)); }
            let w: Vec<E> = ref_named.iter().filter(|r| d[idx[&r.0]].is_some()).cloned().collect();
            let g = edges_of(&t);
            if g != w { fail("spanned-view-edges", &scen, format!("root {}: {:?}", paths[root], w), format!("{:?}", g)); }
            if !t.connected() { fail("spanned-view-connected", &scen, "true".into(), "false".into()); }
        }
        drop(topo);
        drop(sim);
    }
    println!("{{\"mismatch\":false,\"scenarios\":{},\"other\":\"\",\"sample\":\"{}\"}}", count, last_scen.replace('"', "'"));
}
