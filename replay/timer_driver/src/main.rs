//! timer_driver — bounded replay for C05 on the REAL `des` crate: 1..2 modules, each with 1..3 tasks that run random programs of
//! timer operations (sleep, sleep_until, timeout around a sleep / a never-ready future, a sleep that is polled once and dropped,
//! a pinned sleep that is reset, interval ticks with Burst / Delay / Skip and late ticks). Every completion is logged with
//! `SimTime::now()` and compared with the deadline the property prescribes; the run must end with every task finished.
//! All durations are multiples of 10 ms, so many timers of a module share a deadline and lateness is 0 or >= 10 ms.
//! Never counts as proof.
//!
//! usage: timer_driver search <scenarios> <seed>     exit 0 = no mismatch, 3 = mismatch (JSON on stdout)
use des::prelude::*;
use des::time::{interval, interval_at, sleep, sleep_until, timeout, timeout_at, MissedTickBehavior};
use std::future::Future;
use std::pin::Pin;
use std::sync::Mutex;
use std::task::Poll;

#[derive(Clone, Debug)]
enum Op {
    Sleep(u64),
    SleepUntil(u64),
    PollDrop(u64),
    Reset(u64, u64),
    TimeoutSleep(u64, u64),
    TimeoutPending(u64),
    Interval(u64, u8, Vec<u64>), // period, behaviour (0 burst, 1 delay, 2 skip), work after each tick
    TimeoutAt(u64, u64),         // timeout_at(absolute deadline, sleep(d))
    IntervalAt(u64, u64, usize), // interval_at(absolute start, period): k ticks without work in between
    IntervalReset(u64, u64),     // interval(p): first tick, sleep(w), reset(), next tick is due one period after the reset
    Abort(u64, u64),             // spawn a sub-task that sleeps d and then logs; abort it after sleeping d0 < d: it must never log
    TimeoutFar(u64, u8),         // timeout(a duration that is not representable as a deadline, sleep(d)): Ok after d
    SleepFarInTimeout(u64, u8),  // timeout(d, sleep(such a duration)): Elapsed after d
    Debounce(u64, u64),          // only as a whole task: sleep(d0) that every self-message of the module resets to now + d (d = 2 mod 10)
}

// (module, task, op index, tag, value, now)   all times in ms
static LOG: Mutex<Vec<(usize, usize, usize, &'static str, i64, u64)>> = Mutex::new(Vec::new());

fn now_ms() -> u64 { SimTime::now().as_micros() as u64 } // all times of this driver are MICROSECONDS (names kept)
fn ms(d: u64) -> Duration { Duration::from_micros(d) }
// durations far beyond anything representable as a deadline once the clock has left zero
fn far(k: u8) -> Duration { match k { 0 => Duration::from_secs(u64::MAX), 1 => Duration::MAX - Duration::from_nanos(1), _ => Duration::MAX } }
fn at(t: u64) -> SimTime { SimTime::from_duration(ms(t)) }
fn log(m: usize, t: usize, i: usize, tag: &'static str, v: i64) { LOG.lock().unwrap().push((m, t, i, tag, v, now_ms())); }

async fn poll_once<F: Future>(f: Pin<&mut F>) -> bool {
    let mut f = f;
    std::future::poll_fn(|cx| Poll::Ready(f.as_mut().poll(cx).is_ready())).await
}

async fn run_task(m: usize, t: usize, prog: Vec<Op>, mut rx: tokio::sync::mpsc::UnboundedReceiver<()>) {
    for (i, op) in prog.into_iter().enumerate() {
        match op {
            Op::Debounce(d0, dr) => {
                let s = sleep(ms(d0));
                tokio::pin!(s);
                loop {
                    tokio::select! {
                        biased;
                        _ = &mut s => { log(m, t, i, "fired", 0); break; }
                        Some(()) = rx.recv() => { s.as_mut().reset(SimTime::now() + ms(dr)); log(m, t, i, "reset", 0); }
                    }
                }
            }
            Op::Sleep(d) => { sleep(ms(d)).await; log(m, t, i, "sleep", 0); }
            Op::SleepUntil(x) => { sleep_until(at(x)).await; log(m, t, i, "sleep_until", 0); }
            Op::PollDrop(d) => {
                let mut s = Box::pin(sleep(ms(d)));
                let r = poll_once(s.as_mut()).await;
                drop(s);
                log(m, t, i, "poll_drop", r as i64);
            }
            Op::Reset(d1, d2) => {
                let mut s = Box::pin(sleep(ms(d1)));
                let _ = poll_once(s.as_mut()).await;
                s.as_mut().reset(SimTime::now() + ms(d2));
                s.await;
                log(m, t, i, "reset", 0);
            }
            Op::TimeoutSleep(dt, di) => { let r = timeout(ms(dt), sleep(ms(di))).await; log(m, t, i, "timeout_sleep", r.is_ok() as i64); }
            Op::TimeoutPending(dt) => { let r = timeout(ms(dt), std::future::pending::<()>()).await; log(m, t, i, "timeout_pending", r.is_ok() as i64); }
            Op::TimeoutFar(di, k) => { let r = timeout(far(k), sleep(ms(di))).await; log(m, t, i, "timeout_far", r.is_ok() as i64); }
            Op::SleepFarInTimeout(dt, k) => { let r = timeout(ms(dt), sleep(far(k))).await; log(m, t, i, "sleep_far_in_timeout", r.is_ok() as i64); }
            Op::TimeoutAt(x, di) => { let r = timeout_at(at(x), sleep(ms(di))).await; log(m, t, i, "timeout_at", r.is_ok() as i64); }
            Op::IntervalAt(x, p, k) => {
                let mut iv = interval_at(at(x), ms(p));
                for _ in 0..k { let scheduled = iv.tick().await; log(m, t, i, "tick_at", scheduled.as_micros() as i64); }
            }
            Op::IntervalReset(p, w) => {
                let mut iv = interval(ms(p));
                let s0 = iv.tick().await;
                log(m, t, i, "tick", s0.as_micros() as i64);
                sleep(ms(w)).await;
                iv.reset();
                let s1 = iv.tick().await;
                log(m, t, i, "tick_after_reset", s1.as_micros() as i64);
            }
            Op::Abort(d0, d) => {
                let h = tokio::spawn(async move { sleep(ms(d)).await; log(m, t, i, "ABORTED-TASK-RAN", 0); });
                sleep(ms(d0)).await;
                h.abort();
                log(m, t, i, "aborted", 0);
            }
            Op::Interval(p, b, work) => {
                let mut iv = interval(ms(p));
                iv.set_missed_tick_behavior(match b { 0 => MissedTickBehavior::Burst, 1 => MissedTickBehavior::Delay, _ => MissedTickBehavior::Skip });
                for w in work {
                    let scheduled = iv.tick().await;
                    log(m, t, i, "tick", scheduled.as_micros() as i64);
                    if w > 0 { sleep(ms(w)).await; }
                }
                log(m, t, i, "interval_done", 0);
            }
        }
    }
    log(m, t, usize::MAX, "done", 0);
}

// the reference: what the property prescribes for one task (tasks only wait on timers, so they are independent)
fn expect_task(m: usize, t: usize, prog: &[Op], pings: &[u64]) -> Vec<(usize, usize, usize, &'static str, i64, u64)> {
    let mut out = vec![];
    let mut now = 0u64;
    for (i, op) in prog.iter().enumerate() {
        match op {
            Op::Debounce(d0, dr) => {
                // pings are at 5 mod 10, deadlines at 0 or 7 mod 10: never in the same instant
                let mut deadline = now + d0;
                for p in pings.iter() { if *p < deadline { out.push((m, t, i, "reset", 0, *p)); deadline = p + dr; } }
                now = deadline;
                out.push((m, t, i, "fired", 0, now));
            }
            Op::Sleep(d) => { now += d; out.push((m, t, i, "sleep", 0, now)); }
            Op::SleepUntil(x) => { now = now.max(*x); out.push((m, t, i, "sleep_until", 0, now)); }
            Op::PollDrop(d) => { out.push((m, t, i, "poll_drop", (*d == 0) as i64, now)); }
            Op::Reset(_, d2) => { now += d2; out.push((m, t, i, "reset", 0, now)); }
            Op::TimeoutSleep(dt, di) => { let ok = di <= dt; now += (*dt).min(*di); out.push((m, t, i, "timeout_sleep", ok as i64, now)); }
            Op::TimeoutPending(dt) => { now += dt; out.push((m, t, i, "timeout_pending", 0, now)); }
            Op::TimeoutFar(di, _) => { now += di; out.push((m, t, i, "timeout_far", 1, now)); }
            Op::SleepFarInTimeout(dt, _) => { now += dt; out.push((m, t, i, "sleep_far_in_timeout", 0, now)); }
            Op::TimeoutAt(x, di) => { let dl = (*x).max(now); let fin = now + di; let ok = fin <= dl; now = if ok { fin } else { dl }; out.push((m, t, i, "timeout_at", ok as i64, now)); }
            Op::IntervalAt(x, p, k) => {
                let mut scheduled = *x;
                for _ in 0..*k { now = now.max(scheduled); out.push((m, t, i, "tick_at", scheduled as i64, now)); scheduled += p; }
            }
            Op::IntervalReset(p, w) => {
                out.push((m, t, i, "tick", now as i64, now));
                now += w;
                let due = now + p;
                now = due;
                out.push((m, t, i, "tick_after_reset", due as i64, now));
            }
            Op::Abort(d0, _) => { now += d0; out.push((m, t, i, "aborted", 0, now)); }
            Op::Interval(p, b, work) => {
                let mut scheduled = now;
                for w in work.iter() {
                    now = now.max(scheduled);
                    out.push((m, t, i, "tick", scheduled as i64, now));
                    scheduled = if now > scheduled {
                        match b { 0 => scheduled + p, 1 => now + p, _ => now + p - ((now - scheduled) % p) }
                    } else { scheduled + p };
                    now += w;
                }
                out.push((m, t, i, "interval_done", 0, now));
            }
        }
    }
    out.push((m, t, usize::MAX, "done", 0, now));
    out
}

struct M { id: usize, progs: Vec<Vec<Op>>, pings: Vec<u64>, txs: Vec<tokio::sync::mpsc::UnboundedSender<()>> }
impl Module for M {
    fn at_sim_start(&mut self, _: usize) {
        for (t, p) in self.progs.iter().cloned().enumerate() {
            let m = self.id;
            let (tx, rx) = tokio::sync::mpsc::unbounded_channel();
            self.txs.push(tx);
            tokio::spawn(run_task(m, t, p, rx));
        }
        // self-messages: activations of the module that are not timer wake-ups
        for p in self.pings.iter() { schedule_in(Message::default(), ms(*p)); }
    }
    fn handle_message(&mut self, _: Message) {
        for tx in self.txs.iter() { let _ = tx.send(()); }
    }
}

fn gen_prog(r: &mut dyn FnMut() -> u64) -> Vec<Op> {
    const K: u64 = 1000; // ms -> us
    if r() % 5 == 0 { return vec![Op::Debounce((10 + (r() % 5) * 10) * K, (2 + (r() % 5) * 10) * K)]; }
    let n = 1 + (r() % 5) as usize;
    let d = |r: &mut dyn FnMut() -> u64| (r() % 6) * 10 * K;
    (0..n).map(|_| match r() % 16 {
        14 => Op::TimeoutFar(d(r), (r() % 3) as u8),
        15 => Op::SleepFarInTimeout(d(r), (r() % 3) as u8),
        9 => Op::TimeoutAt((r() % 12) * 10 * K, d(r)),
        10 => Op::IntervalAt((r() % 8) * 10 * K, (10 + (r() % 3) * 10) * K, 1 + (r() % 3) as usize),
        11 => Op::IntervalReset((10 + (r() % 3) * 10) * K, (r() % 4) * 10 * K),
        12 => { let d0 = d(r); Op::Abort(d0, d0 + 10 * K + d(r)) }
        // periods and latenesses that are NOT whole milliseconds. Exactly one tick is late, by more than the 5 ms below which a tick
        // does not count as missed and (for Burst) by less than one period, so that every later tick is on time again
        13 => {
            let b = (r() % 3) as u8;
            let p = if b == 0 { [7_300u64, 10_400][(r() % 2) as usize] } else { [2_500u64, 7_300, 10_400][(r() % 3) as usize] };
            let late = if b == 0 { 5_300 + (r() % 3) * 700 } else { 5_300 + (r() % 12) * 700 };
            let mut work = vec![p + late];
            for _ in 0..(r() % 3) { work.push(0); }
            if r() % 2 == 0 { work.insert(0, 0); }
            Op::Interval(p, b, work)
        }
        0 | 1 => Op::Sleep(d(r)),
        2 => Op::SleepUntil((r() % 12) * 10 * K),
        3 | 4 => Op::PollDrop(d(r)),
        5 => Op::Reset(d(r), d(r)),
        6 => Op::TimeoutSleep(d(r), d(r)),
        7 => Op::TimeoutPending(d(r)),
        _ => Op::Interval((10 + (r() % 3) * 10) * K, (r() % 3) as u8, (0..1 + r() % 4).map(|_| if r() % 3 == 0 { (20 + (r() % 4) * 10) * K } else { 0 }).collect()),
    }).collect()
}

fn main() {
    let args: Vec<String> = std::env::args().collect();
    let count: usize = args.get(2).and_then(|s| s.parse().ok()).unwrap_or(2000);
    let seed: u64 = args.get(3).and_then(|s| s.parse().ok()).unwrap_or(1);
    let mut s = seed.wrapping_mul(6364136223846793005).wrapping_add(1442695040888963407) | 1;
    let mut rnd = move || { s ^= s << 13; s ^= s >> 7; s ^= s << 17; s };
    let mut last_scen = String::new();
    for _ in 0..count {
        let nmod = 1 + (rnd() % 2) as usize;
        let progs: Vec<Vec<Vec<Op>>> = (0..nmod).map(|_| (0..1 + rnd() % 3).map(|_| gen_prog(&mut rnd)).collect()).collect();
        // self-messages at 5 ms + 1 us mod 10 ms (never in the same instant as a timer, also not of the fine-grained intervals), sorted, distinct
        let pings: Vec<Vec<u64>> = (0..nmod).map(|_| { let mut v: Vec<u64> = (0..rnd() % 4).map(|_| (5 + (rnd() % 10) * 10) * 1000 + 1).collect(); v.sort(); v.dedup(); v }).collect();
        LOG.lock().unwrap().clear();
        let mut sim = Sim::new(());
        for (i, p) in progs.iter().enumerate() { sim.node(format!("m{}", i).as_str(), M { id: i, progs: p.clone(), pings: pings[i].clone(), txs: vec![] }); }
        let res = std::panic::catch_unwind(std::panic::AssertUnwindSafe(move || Builder::seeded(1).quiet().build(sim.freeze()).run()));
        let mut got = LOG.lock().unwrap().clone();
        let mut want = vec![];
        for (m, ps) in progs.iter().enumerate() { for (t, p) in ps.iter().enumerate() { want.extend(expect_task(m, t, p, &pings[m])); } }
        let end_want = want.iter().map(|e| e.5).chain(pings.iter().flatten().cloned()).max().unwrap_or(0);
        let key = |e: &(usize, usize, usize, &'static str, i64, u64)| (e.0, e.1);
        got.sort_by_key(key); // stable: keeps each task's own order
        want.sort_by_key(key);
        let scen = format!("programs {:?} self_messages_at {:?}", progs, pings);
        last_scen = scen.clone();
        let mut bad: Option<(&str, String, String)> = None;
        match &res {
            Err(_) => bad = Some(("run-panicked", "run() returns".into(), "panic".into())),
            Ok(Err(e)) => { if got == want { bad = Some(("run-reports-error", "Ok: every task finished".into(), format!("{:?}", e))); } }
            // the end time may exceed the last deadline: wake-up events of timers that were dropped or reset stay in the event set
            Ok(Ok((_, t, _))) => { if got == want && (t.as_micros() as u64) < end_want { bad = Some(("end-time", format!(">= {} us", end_want), format!("{} us", t.as_micros()))); } }
        }
        if got != want {
            // first task whose own log differs from its reference
            let mut tasks: Vec<(usize, usize)> = want.iter().map(key).collect();
            tasks.dedup();
            for tk in tasks {
                let g: Vec<_> = got.iter().filter(|e| key(e) == tk).collect();
                let w: Vec<_> = want.iter().filter(|e| key(e) == tk).collect();
                if g != w {
                    let k = g.iter().zip(w.iter()).position(|(a, b)| a != b).unwrap_or(g.len().min(w.len()));
                    bad = Some(("timer-completion-differs", format!("module {} task {}: (module, task, op, what, value, at_us) {:?}", tk.0, tk.1, w.get(k)),
                                match g.get(k) { Some(e) => format!("{:?}", e), None => format!("never completed (the task's log ends after {} entries; the run ended at {:?})", g.len(), res.as_ref().ok().and_then(|r| r.as_ref().ok()).map(|r| r.1)) }));
                    break;
                }
            }
        }
        if let Some((kind, exp, obs)) = bad {
            println!("{{\"mismatch\":true,\"kind\":\"{}\",\"props\":\"C05\",\"scenario\":{{\"timer_programs_us\":\"{}\"}},\"expected\":\"{}\",\"observed\":\"{}\"}}", kind, scen.replace('"', "'"), exp.replace('"', "'"), obs.replace('"', "'"));
            std::process::exit(3);
        }
    }
    println!("{{\"mismatch\":false,\"scenarios\":{},\"other\":\"\",\"sample\":\"{}\"}}", count, last_scen.replace('"', "'"));
}
