//! alloc_driver — BOUNDED stand-in for the free-list part of C15 that neither Verus (raw pointers) nor Kani (out of memory)
//! reaches: des-cqueue/src/stable/alloc.rs is pulled in VERBATIM (include!), and seeded random histories of
//! allocate / deallocate with mixed sizes and alignments and several page sizes are checked against a shadow model:
//! every block lies inside a page the allocator owns, is aligned as requested, never overlaps a live block, and memory is
//! handed out again only after it was released. Never counts as proof.
//!
//! usage: alloc_driver search <histories> <seed>     exit 0 = no mismatch, 3 = mismatch (JSON on stdout)
#![allow(dead_code, unused)]
mod alloc_real {
    include!("@REPO@/des-cqueue/src/stable/alloc.rs");

    pub struct Live { pub addr: usize, pub size: usize, pub align: usize, pub layout: Layout, pub tag: u8 }

    pub fn run(page: usize, ops: &[(u8, usize, usize, usize)]) -> Result<(), (String, usize)> {
        // ops: (0 = alloc(size, align) | 1 = free(index), size, align, index)
        let mut inner = Box::new(CQueueLLAllocatorInner::with_page_size(page));
        let mut h = inner.handle();
        let mut live: Vec<Live> = vec![];
        let mut tag: u8 = 1;
        for (step, &(kind, size, align, idx)) in ops.iter().enumerate() {
            if kind == 0 {
                let layout = match Layout::from_size_align(size, align) { Ok(l) => l, Err(_) => continue };
                let (need, _) = CQueueLLAllocatorInner::size_align(layout);
                if need > page { continue; }
                let p = match h.allocate(layout) { Ok(p) => p as usize, Err(()) => return Err((format!("allocate({size},{align}) failed although it fits a page"), step)) };
                if p % align != 0 { return Err((format!("block {p:#x} for allocate({size},{align}) is not aligned"), step)); }
                let inside = inner.pages.iter().any(|&pg| { let s = pg as usize; p >= s && p + need <= s + page });
                if !inside { return Err((format!("block {p:#x}+{need} for allocate({size},{align}) is not inside a page the allocator owns"), step)); }
                for l in live.iter() {
                    let (ln, _) = CQueueLLAllocatorInner::size_align(l.layout);
                    if p < l.addr + ln && l.addr < p + need { return Err((format!("block {p:#x}+{need} overlaps the live block {:#x}+{ln}", l.addr), step)); }
                }
                // fill with a tag to detect later corruption by the allocator's own bookkeeping
                unsafe { std::ptr::write_bytes(p as *mut u8, tag, size); }
                live.push(Live { addr: p, size, align, layout, tag });
                tag = tag.wrapping_add(1).max(1);
            } else if !live.is_empty() {
                let l = live.remove(idx % live.len());
                // contents must be intact until release
                let ok = (0..l.size).all(|i| unsafe { *((l.addr + i) as *const u8) } == l.tag);
                if !ok { return Err((format!("contents of the live block {:#x}+{} were overwritten", l.addr, l.size), step)); }
                unsafe { h.deallocate(std::ptr::NonNull::new(l.addr as *mut u8).unwrap(), l.layout); }
            }
        }
        for l in live.iter() {
            let ok = (0..l.size).all(|i| unsafe { *((l.addr + i) as *const u8) } == l.tag);
            if !ok { return Err((format!("contents of the live block {:#x}+{} were overwritten", l.addr, l.size), ops.len())); }
        }
        Ok(())
    }
}

fn main() {
    let args: Vec<String> = std::env::args().collect();
    let count: usize = args.get(2).and_then(|s| s.parse().ok()).unwrap_or(2000);
    let seed: u64 = args.get(3).and_then(|s| s.parse().ok()).unwrap_or(1);
    let mut s = seed.wrapping_mul(6364136223846793005).wrapping_add(1442695040888963407) | 1;
    let mut rnd = move || { s ^= s << 13; s ^= s >> 7; s ^= s << 17; s };
    let sizes = [1usize, 8, 16, 24, 40, 48, 56, 64, 100, 200, 512, 1000, 2000];
    let aligns = [1usize, 2, 4, 8, 16];
    for _ in 0..count {
        let page = [4096usize, 8192, 16384][(rnd() % 3) as usize];
        let n = 5 + (rnd() % 60) as usize;
        let uniform = rnd() % 3 == 0; // one layout only (what a single CQueue<E> does)
        // sizes relative to the page (half a page exactly, just below / above it, a quarter, three eighths): every fourth pick
        let rel = [page / 2, page / 2 - 8, page / 2 + 8, page / 4, page / 8 * 3];
        let mut pick = |r: u64, r2: u64| -> usize { if r % 4 == 0 { rel[(r2 % rel.len() as u64) as usize] } else { sizes[(r2 % sizes.len() as u64) as usize] } };
        let (us, ua) = (pick(rnd(), rnd()), aligns[(rnd() % aligns.len() as u64) as usize]);
        let mut ops = vec![];
        for _ in 0..n {
            if rnd() % 3 != 0 {
                let (sz, al) = if uniform { (us, ua) } else { (pick(rnd(), rnd()), aligns[(rnd() % aligns.len() as u64) as usize]) };
                ops.push((0u8, sz, al, 0usize));
            } else { ops.push((1u8, 0, 0, rnd() as usize)); }
        }
        if let Err((what, step)) = alloc_real::run(page, &ops) {
            let o: Vec<String> = ops.iter().map(|&(k, s, a, i)| if k == 0 { format!("{{\"alloc\":[{},{}]}}", s, a) } else { format!("{{\"free\":{}}}", i) }).collect();
            println!("{{\"mismatch\":true,\"kind\":\"allocator-placement\",\"props\":\"C15\",\"scenario\":{{\"page_size\":{},\"ops\":[{}]}},\"step\":{},\"expected\":\"blocks inside owned pages, aligned, pairwise disjoint, intact until released\",\"observed\":\"{}\"}}", page, o.join(","), step, what);
            std::process::exit(3);
        }
    }
    println!("{{\"mismatch\":false,\"scenarios\":{},\"other\":\"\"}}", count);
}
