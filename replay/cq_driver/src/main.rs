//! cq_driver — executes operation scripts on the REAL des-cqueue::CQueue (linked from /repo's working tree) and compares
//! every observable result with the executable form of the abstract contract of units/core.vrs (a_add / a_fetch /
//! a_cancel / a_peek). It is
//!   * the replay tool for violations reported by the Verus unit `core` (a script in, what the real queue did out), and
//!   * a BOUNDED stand-in for the assumed DualLinkedList contract and for functions whose overlay no longer fits:
//!     exhaustive enumeration of all scripts up to a length bound over a grid of parameterisations and timestamps,
//!     plus seeded long random scripts. A bounded search never counts as proved.
//!
//! usage: cq_driver search <depth> <random-scripts> <seed>      exit 0 = no mismatch, 3 = mismatch (JSON on stdout)
//!        cq_driver replay '<json script>'
use des_cqueue::{CQueue, EventHandle};
use std::panic::{catch_unwind, AssertUnwindSafe};
use std::time::Duration;

thread_local! {
    /// how often the payload with a given ordinal has been dropped (C15: exactly once)
    static DROPS: std::cell::RefCell<Vec<u32>> = std::cell::RefCell::new(Vec::new());
}

/// event payload: carries its ordinal and a few words of data, counts its drops
#[derive(Debug)]
struct Tok { id: usize, pad: [u64; 3] }
impl Tok {
    fn new(id: usize) -> Tok {
        DROPS.with(|d| { let mut d = d.borrow_mut(); if d.len() <= id { d.resize(id + 1, 0); } d[id] = 0; });
        Tok { id, pad: [id as u64 ^ 0xA5A5, !(id as u64), 7] }
    }
    fn intact(&self) -> bool { self.pad == [self.id as u64 ^ 0xA5A5, !(self.id as u64), 7] }
}
impl Drop for Tok {
    fn drop(&mut self) { DROPS.with(|d| { let mut d = d.borrow_mut(); if d.len() <= self.id { d.resize(self.id + 1, 0); } d[self.id] += 1; }); }
}

#[derive(Clone, Copy, Debug, PartialEq)]
enum Op {
    Add(u128),   // absolute time in ns
    Fetch,
    Cancel(usize), // index into the list of handles handed out so far
    Peek,
}

#[derive(Clone, Debug)]
struct Model {
    zero: Vec<(usize, u128)>,      // (id, time) FIFO
    rest: Vec<(u128, usize)>,      // (time, id)
    now: u128,
    next_id: usize,
    handles: Vec<(usize, u128)>,   // id, time of every handle handed out
}

impl Model {
    fn new() -> Self { Model { zero: vec![], rest: vec![], now: 0, next_id: 0, handles: vec![] } }
    fn len(&self) -> usize { self.zero.len() + self.rest.len() }
}

struct Mismatch { step: usize, kind: &'static str, props: &'static str, expected: String, observed: String }

fn dur(t: u128) -> Duration { Duration::new((t / 1_000_000_000) as u64, (t % 1_000_000_000) as u32) }

fn run(n: usize, t: u128, script: &[Op]) -> Result<(), Mismatch> {
    DROPS.with(|d| d.borrow_mut().clear());
    let r = run_inner(n, t, script);
    r
}

fn check_drops(step: usize, upto: usize) -> Result<(), Mismatch> {
    let bad = DROPS.with(|d| { let d = d.borrow(); (0..upto.min(d.len())).find(|&i| d[i] != 1).map(|i| (i, d[i])) });
    if let Some((i, c)) = bad {
        return Err(Mismatch { step, kind: "payload-drop-count", props: "C15", expected: format!("payload {} dropped exactly once after the queue is gone", i), observed: format!("dropped {} times", c) });
    }
    Ok(())
}

fn run_inner(n: usize, t: u128, script: &[Op]) -> Result<(), Mismatch> {
    let mut q: CQueue<Tok> = CQueue::new(n, dur(t));
    let mut m = Model::new();
    let mut handles: Vec<Option<EventHandle<Tok>>> = vec![];
    for (step, op) in script.iter().enumerate() {
        match *op {
            Op::Add(time) => {
                let id = m.next_id;
                let r = catch_unwind(AssertUnwindSafe(|| q.add(dur(time), Tok::new(id))));
                let should_accept = time >= m.now;
                match (r, should_accept) {
                    (Ok(h), true) => {
                        handles.push(Some(h));
                        m.handles.push((id, time));
                        if time == m.now { m.zero.push((id, time)); } else { m.rest.push((time, id)); }
                        m.next_id += 1;
                    }
                    (Err(_), false) => { std::mem::forget(q); return Ok(()); } // rejected as required; the queue may be poisoned by the unwind: stop the script
                    (Ok(_), false) => return Err(Mismatch { step, kind: "add-accepted-before-now", props: "C01 C02", expected: format!("add({time}ns) rejected (now = {}ns)", m.now), observed: "accepted".into() }),
                    (Err(_), true) => return Err(Mismatch { step, kind: "add-rejected-at-or-after-now", props: "C02 C10", expected: format!("add({time}ns) accepted (now = {}ns)", m.now), observed: "panic".into() }),
                }
            }
            Op::Fetch => {
                if m.len() == 0 { continue; }
                let exp = if !m.zero.is_empty() { let (id, t) = m.zero.remove(0); (id, t) } else {
                    let mut best = 0;
                    for i in 1..m.rest.len() { if m.rest[i] < m.rest[best] { best = i; } }
                    let (t, id) = m.rest.remove(best);
                    m.now = t;
                    (id, t)
                };
                let r = catch_unwind(AssertUnwindSafe(|| q.fetch_next()));
                match r {
                    Ok((tok, t)) => {
                        let id = tok.id;
                        if !tok.intact() {
                            return Err(Mismatch { step, kind: "payload-corrupted", props: "C15", expected: format!("payload {} returned bit for bit", id), observed: "payload bytes changed".into() });
                        }
                        drop(tok);
                        let t = t.as_nanos();
                        if (id, t) != exp {
                            let (kind, props) = if t != exp.1 { ("fetch-wrong-time", "C01 C02") } else { ("fetch-wrong-tie-order", "C03") };
                            return Err(Mismatch { step, kind, props, expected: format!("event {} at {}ns", exp.0, exp.1), observed: format!("event {} at {}ns", id, t) });
                        }
                    }
                    Err(_) => return Err(Mismatch { step, kind: "fetch-panicked", props: "C01", expected: format!("event {} at {}ns", exp.0, exp.1), observed: "panic".into() }),
                }
            }
            Op::Cancel(k) => {
                if k >= handles.len() { continue; }
                let h = match handles[k].take() { Some(h) => h, None => continue };
                let (id, _t) = m.handles[k];
                if let Some(i) = m.zero.iter().position(|e| e.0 == id) { m.zero.remove(i); }
                else if let Some(i) = m.rest.iter().position(|e| e.1 == id) { m.rest.remove(i); }
                if catch_unwind(AssertUnwindSafe(|| q.cancel(h))).is_err() {
                    return Err(Mismatch { step, kind: "cancel-panicked", props: "C01", expected: "cancel returns".into(), observed: "panic".into() });
                }
            }
            Op::Peek => {
                let exp: Option<u128> = if m.len() == 0 { None } else if !m.zero.is_empty() { Some(m.zero[0].1) } else { m.rest.iter().map(|e| e.0).min() };
                let r = catch_unwind(AssertUnwindSafe(|| q.peek_time()));
                match r {
                    Ok(got) => {
                        let got = got.map(|d| d.as_nanos());
                        if got != exp {
                            return Err(Mismatch { step, kind: "peek-wrong-time", props: "C10 C11", expected: format!("{:?}", exp), observed: format!("{:?}", got) });
                        }
                    }
                    Err(_) => return Err(Mismatch { step, kind: "peek-panicked", props: "C10 C11", expected: format!("{:?}", exp), observed: "panic".into() }),
                }
            }
        }
        if q.len() != m.len() || q.is_empty() != (m.len() == 0) {
            return Err(Mismatch { step, kind: "len-mismatch", props: "C01", expected: format!("len {}", m.len()), observed: format!("len {} is_empty {}", q.len(), q.is_empty()) });
        }
        if q.time().as_nanos() != m.now {
            return Err(Mismatch { step, kind: "time-mismatch", props: "C02 C10", expected: format!("lower bound {}ns", m.now), observed: format!("{}ns", q.time().as_nanos()) });
        }
    }
    // every second script: drop the queue with events still pending; every payload must then have been dropped exactly once
    if script.len() % 2 == 1 {
        let total = m.next_id;
        if catch_unwind(AssertUnwindSafe(move || drop(q))).is_err() {
            return Err(Mismatch { step: script.len(), kind: "queue-drop-panicked", props: "C15", expected: "CQueue::drop returns".into(), observed: "panic".into() });
        }
        return check_drops(script.len(), total);
    }
    // drain: everything still pending must come out, in order
    let mut tail: Vec<Op> = vec![];
    for _ in 0..m.len() { tail.push(Op::Fetch); }
    if !tail.is_empty() {
        // re-run drain on the same queue
        let mut rest = m.clone();
        for (i, _) in tail.iter().enumerate() {
            let exp = if !rest.zero.is_empty() { rest.zero.remove(0) } else {
                let mut best = 0;
                for j in 1..rest.rest.len() { if rest.rest[j] < rest.rest[best] { best = j; } }
                let (t, id) = rest.rest.remove(best);
                (id, t)
            };
            match catch_unwind(AssertUnwindSafe(|| q.fetch_next())) {
                Ok((tok, t)) => {
                    let id = tok.id;
                    let ok = tok.intact();
                    drop(tok);
                    if !ok {
                        return Err(Mismatch { step: script.len() + i, kind: "payload-corrupted", props: "C15", expected: format!("payload {} returned bit for bit", id), observed: "payload bytes changed".into() });
                    }
                    let t = t.as_nanos();
                    if (id, t) != exp {
                        let (kind, props) = if t != exp.1 { ("drain-wrong-time", "C01 C11") } else { ("drain-wrong-tie-order", "C03") };
                        return Err(Mismatch { step: script.len() + i, kind, props, expected: format!("event {} at {}ns", exp.0, exp.1), observed: format!("event {} at {}ns", id, t) });
                    }
                }
                Err(_) => return Err(Mismatch { step: script.len() + i, kind: "drain-panicked", props: "C01", expected: format!("event {} at {}ns", exp.0, exp.1), observed: "panic".into() }),
            }
        }
        if !q.is_empty() {
            return Err(Mismatch { step: script.len() + tail.len(), kind: "len-mismatch", props: "C01", expected: "empty".into(), observed: format!("len {}", q.len()) });
        }
    }
    let total = m.next_id;
    drop(q);
    check_drops(script.len() + tail.len(), total)
}

fn op_json(op: &Op) -> String {
    match op { Op::Add(t) => format!("{{\"add\":{}}}", t), Op::Fetch => "\"fetch\"".into(), Op::Cancel(k) => format!("{{\"cancel\":{}}}", k), Op::Peek => "\"peek\"".into() }
}

fn report(n: usize, t: u128, script: &[Op], mm: &Mismatch, origin: &str) {
    let ops: Vec<String> = script.iter().map(op_json).collect();
    println!("{{\"mismatch\":true,\"origin\":\"{}\",\"n\":{},\"t_ns\":{},\"script\":[{}],\"step\":{},\"kind\":\"{}\",\"props\":\"{}\",\"expected\":\"{}\",\"observed\":\"{}\"}}",
        origin, n, t, ops.join(","), mm.step, mm.kind, mm.props, mm.expected, mm.observed);
}

/// shrink a failing script by deleting single operations while it keeps failing with the same kind
fn shrink(n: usize, t: u128, mut script: Vec<Op>, kind: &'static str) -> Vec<Op> {
    let mut changed = true;
    while changed {
        changed = false;
        let mut i = 0;
        while i < script.len() {
            let mut cand = script.clone();
            cand.remove(i);
            // cancel indices refer to add ordinals: keep them consistent by only removing non-add ops or trailing ops
            let removing_add = matches!(script[i], Op::Add(_));
            if !removing_add || !script.iter().any(|o| matches!(o, Op::Cancel(_))) {
                if let Err(mm) = run(n, t, &cand) {
                    if mm.kind == kind { script = cand; changed = true; continue; }
                }
            }
            i += 1;
        }
    }
    script
}

fn offsets(n: usize, t: u128) -> Vec<u128> {
    let y = n as u128 * t;
    let mut v = vec![0, 1, t, t + 1, y, y + 1, 2 * y, 2 * y + 1];
    if t > 1 { v.push(t - 1); }
    if y > 1 { v.push(y - 1); }
    v.sort();
    v.dedup();
    v
}

static PARAMS: &[(usize, u128)] = &[(1, 1), (1, 3), (2, 1), (2, 2), (3, 1), (3, 2), (4, 5)];
// (bucket count, width) whose year does not divide 2^64 ns, used by the far-future scripts
static FAR_PARAMS: &[(usize, u128)] = &[(3, 1_000_000_000_000_000_000), (5, 700_000_000_000_000_000)];

static TRACE: std::sync::atomic::AtomicBool = std::sync::atomic::AtomicBool::new(false);

/// the script being executed, for the watchdog (a mutated queue may loop forever inside fetch_next / peek_time)
static CURRENT: std::sync::Mutex<(u64, usize, u128, Vec<Op>)> = std::sync::Mutex::new((0, 0, 0, Vec::new()));

fn set_current(n: usize, t: u128, script: &[Op]) {
    // CQ_TRACE=1: print every script before it runs (used by the driver's caller to identify a script that kills the process)
    if TRACE.load(std::sync::atomic::Ordering::Relaxed) {
        let ops: Vec<String> = script.iter().map(op_json).collect();
        eprintln!("{{\"n\":{},\"t_ns\":{},\"script\":[{}]}}", n, t, ops.join(","));
    }
    let mut c = CURRENT.lock().unwrap();
    c.0 += 1;
    c.1 = n;
    c.2 = t;
    c.3.clear();
    c.3.extend_from_slice(script);
}

fn start_watchdog() {
    std::thread::spawn(|| {
        let mut last = 0u64;
        let mut same = 0;
        loop {
            std::thread::sleep(std::time::Duration::from_millis(500));
            let (cnt, n, t, script) = { let c = CURRENT.lock().unwrap(); (c.0, c.1, c.2, c.3.clone()) };
            if cnt == last && cnt != 0 { same += 1; } else { same = 0; last = cnt; }
            if same >= 6 {
                let mm = Mismatch { step: script.len(), kind: "operation-does-not-return", props: "C01 C02 C03 C10 C11", expected: "every operation of the script returns".into(), observed: "no progress for 3 s (non-terminating scan?)".into() };
                report(n, t, &script, &mm, "watchdog");
                std::process::exit(3);
            }
        }
    });
}

fn search(depth: usize, nrandom: usize, seed: u64, filter: &str) -> i32 {
    std::panic::set_hook(Box::new(|_| {}));
    if std::env::var("CQ_TRACE").is_ok() { TRACE.store(true, std::sync::atomic::Ordering::Relaxed); }
    start_watchdog();
    let mut scripts: u64 = 0;
    let mut other: Option<String> = None; // first mismatch that does not carry the property asked for
    // exhaustive part
    for &(n, t) in PARAMS {
        let offs = offsets(n, t);
        let mut stack: Vec<Vec<Op>> = vec![vec![]];
        while let Some(prefix) = stack.pop() {
            if !prefix.is_empty() {
                scripts += 1;
                set_current(n, t, &prefix);
                if let Err(mm) = run(n, t, &prefix) {
                    if filter.is_empty() || mm.props.contains(filter) {
                        let s = shrink(n, t, prefix.clone(), mm.kind);
                        let mm2 = run(n, t, &s).err().unwrap_or(mm);
                        report(n, t, &s, &mm2, "exhaustive");
                        eprintln!("scripts={}", scripts);
                        return 3;
                    }
                    if other.is_none() { other = Some(format!("{} ({})", mm.kind, mm.props)); }
                    continue; // do not extend a script that already went wrong
                }
            }
            if prefix.len() >= depth { continue; }
            // replay the model cheaply to know `now` and number of handles
            let mut now = 0u128; let mut zero = 0usize; let mut rest: Vec<u128> = vec![]; let mut adds = 0usize;
            for op in prefix.iter() {
                match *op {
                    Op::Add(tm) => { adds += 1; if tm == now { zero += 1 } else { rest.push(tm) } }
                    Op::Fetch => { if zero > 0 { zero -= 1 } else if !rest.is_empty() { let mi = (0..rest.len()).min_by_key(|&i| rest[i]).unwrap(); now = rest.remove(mi); } }
                    _ => {}
                }
            }
            for o in offs.iter() { let mut p = prefix.clone(); p.push(Op::Add(now + o)); stack.push(p); }
            if now > 0 && prefix.len() + 1 == depth { let mut p = prefix.clone(); p.push(Op::Add(now - 1)); stack.push(p); }
            { let mut p = prefix.clone(); p.push(Op::Fetch); stack.push(p); }
            if !matches!(prefix.last(), Some(Op::Peek)) { let mut p = prefix.clone(); p.push(Op::Peek); stack.push(p); }
            for k in adds.saturating_sub(3)..adds { let mut p = prefix.clone(); p.push(Op::Cancel(k)); stack.push(p); }
        }
    }
    // seeded random long scripts (structures larger than the exhaustive bound reaches)
    let mut s = seed.wrapping_mul(6364136223846793005).wrapping_add(1442695040888963407);
    let mut rnd = move || { s ^= s << 13; s ^= s >> 7; s ^= s << 17; s };
    for i in 0..nrandom {
        let (n, t) = PARAMS[(rnd() % PARAMS.len() as u64) as usize];
        let (n, t) = if i % 5 == 0 { (1028usize, 2_500_000u128) } else { (n, t) };
        // far-future scripts: timestamps around 2^64 ns (u64 truncation of as_nanos, year not dividing 2^64)
        let far = i % 7 == 3;
        let (n, t) = if far { FAR_PARAMS[(rnd() % FAR_PARAMS.len() as u64) as usize] } else { (n, t) };
        let far_base: u128 = if far { ((1u128 << 64) / t) * t } else { 0 };
        let offs = offsets(n, t);
        let len = 40 + (rnd() % 160) as usize;
        let len = if i % 7 == 3 { 6 + (rnd() % 10) as usize } else { len };
        let burst = rnd() % 3 == 0;
        // big-bucket scripts: many entries on few distinct timestamps of one bucket (long lists, many ties)
        let big = i % 7 == 5;
        let (n, t) = if big { if rnd() % 2 == 0 { (1usize, 3u128) } else { (2usize, 8u128) } } else { (n, t) };
        // flood scripts: far more than 64 events pending for the current instant (the zero-event bucket is preallocated with 64)
        let flood = i % 7 == 1;
        let len = if flood { 120 + (rnd() % 120) as usize } else { len };
        let mut script: Vec<Op> = vec![];
        let mut now = 0u128; let mut zero = 0usize; let mut rest: Vec<u128> = vec![]; let mut adds = 0usize;
        let mut last_add = 0u128;
        for _ in 0..len {
            let r = rnd() % 100;
            let op = if r < (if big || flood { 85 } else if burst { 70 } else { 50 }) {
                let tm = if flood && rnd() % 8 != 0 { now } else if big { now + 1 + (rnd() % 4) as u128 } else if burst && rnd() % 2 == 0 && last_add >= now { last_add }
                    else if far { let base = if now > far_base { now } else { far_base }; base + (rnd() % 8) as u128 * t + (rnd() % 3) as u128 }
                    else { now + offs[(rnd() % offs.len() as u64) as usize] + if rnd() % 4 == 0 { (rnd() as u128) % (3 * n as u128 * t + 1) } else { 0 } };
                last_add = tm;
                Op::Add(tm)
            } else if r < 80 || ((big || flood) && r < 96) { Op::Fetch } else if r < 90 && adds > 0 { Op::Cancel((rnd() % adds as u64) as usize) } else { Op::Peek };
            match op {
                Op::Add(tm) => { adds += 1; if tm == now { zero += 1 } else { rest.push(tm) } }
                Op::Fetch => { if zero > 0 { zero -= 1 } else if !rest.is_empty() { let mi = (0..rest.len()).min_by_key(|&i| rest[i]).unwrap(); now = rest.remove(mi); } }
                Op::Cancel(_) => { /* the cheap shadow does not track cancels: `now` may lag; run() uses the full model */ }
                _ => {}
            }
            script.push(op);
            if matches!(op, Op::Cancel(_)) { break; } // keep the cheap shadow exact: at most one cancel, at the end
        }
        scripts += 1;
        set_current(n, t, &script);
        if let Err(mm) = run(n, t, &script) {
            if filter.is_empty() || mm.props.contains(filter) {
                let sh = shrink(n, t, script.clone(), mm.kind);
                let mm2 = run(n, t, &sh).err().unwrap_or(mm);
                report(n, t, &sh, &mm2, "random");
                eprintln!("scripts={}", scripts);
                return 3;
            }
            if other.is_none() { other = Some(format!("{} ({})", mm.kind, mm.props)); }
        }
    }
    println!("{{\"mismatch\":false,\"scripts\":{},\"depth\":{},\"random\":{},\"params\":{},\"other\":\"{}\"}}", scripts, depth, nrandom, PARAMS.len(), other.unwrap_or_default());
    0
}

fn parse_script(s: &str) -> (usize, u128, Vec<Op>) {
    // minimal parser for the JSON printed by report()
    let num_after = |key: &str| -> u128 { let i = s.find(key).unwrap() + key.len(); s[i..].chars().take_while(|c| c.is_ascii_digit()).collect::<String>().parse().unwrap() };
    let n = num_after("\"n\":") as usize;
    let t = num_after("\"t_ns\":");
    let a = s.find("\"script\":[").unwrap() + 10;
    let b = a + s[a..].find(']').unwrap();
    let mut ops = vec![];
    let body = &s[a..b];
    let mut i = 0;
    let bytes = body.as_bytes();
    while i < bytes.len() {
        if body[i..].starts_with("{\"add\":") { let j = i + 7; let num: String = body[j..].chars().take_while(|c| c.is_ascii_digit()).collect(); ops.push(Op::Add(num.parse().unwrap())); i = j + num.len(); }
        else if body[i..].starts_with("{\"cancel\":") { let j = i + 10; let num: String = body[j..].chars().take_while(|c| c.is_ascii_digit()).collect(); ops.push(Op::Cancel(num.parse().unwrap())); i = j + num.len(); }
        else if body[i..].starts_with("\"fetch\"") { ops.push(Op::Fetch); i += 7; }
        else if body[i..].starts_with("\"peek\"") { ops.push(Op::Peek); i += 6; }
        else { i += 1; }
    }
    (n, t, ops)
}

fn main() {
    let args: Vec<String> = std::env::args().collect();
    match args.get(1).map(|s| s.as_str()) {
        Some("search") => {
            let depth: usize = args.get(2).and_then(|s| s.parse().ok()).unwrap_or(4);
            let nr: usize = args.get(3).and_then(|s| s.parse().ok()).unwrap_or(300);
            let seed: u64 = args.get(4).and_then(|s| s.parse().ok()).unwrap_or(1);
            let filter = args.get(5).cloned().unwrap_or_default();
            std::process::exit(search(depth, nr, seed, &filter));
        }
        Some("replay") => {
            std::panic::set_hook(Box::new(|_| {}));
            let (n, t, ops) = parse_script(&args[2]);
            match run(n, t, &ops) {
                Ok(()) => { println!("{{\"mismatch\":false}}"); }
                Err(mm) => { report(n, t, &ops, &mm, "replay"); std::process::exit(3); }
            }
        }
        _ => { eprintln!("usage: cq_driver search <depth> <random> <seed> | replay <json>"); std::process::exit(2); }
    }
}
