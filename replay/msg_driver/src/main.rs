//! Bounded replay for property C16 at the level of `des::net::message::Message` (never counted as proof): random scripts of
//! set_content (same type again / other type), try_content, try_content_mut (write through), try_clone, try_cast (matching /
//! non-matching type), drop — on bodies of type u32, u64, String, Vec<u8>, (), Tok (clonable, counts drops) and Solo (not clonable);
//! every observation is compared with a reference (value, length = 64 + declared byte length, drop counts).
//! usage: msg_driver search <count> <seed>
use des::net::message::MessageBody;
use des::prelude::*;
use std::sync::atomic::{AtomicIsize, Ordering};

static LIVE: AtomicIsize = AtomicIsize::new(0);
static MADE: AtomicIsize = AtomicIsize::new(0);

#[derive(Debug)]
struct Tok(u32);
impl Tok {
    fn new(v: u32) -> Tok {
        LIVE.fetch_add(1, Ordering::SeqCst);
        MADE.fetch_add(1, Ordering::SeqCst);
        Tok(v)
    }
}
impl Clone for Tok {
    fn clone(&self) -> Tok {
        Tok::new(self.0)
    }
}
impl Drop for Tok {
    fn drop(&mut self) {
        LIVE.fetch_sub(1, Ordering::SeqCst);
    }
}
impl MessageBody for Tok {
    fn byte_len(&self) -> usize {
        7
    }
}
#[derive(Debug)]
struct Solo(u32);
impl MessageBody for Solo {
    fn byte_len(&self) -> usize {
        3
    }
}

struct Rng(u64);
impl Rng {
    fn next(&mut self) -> u64 {
        self.0 ^= self.0 << 13;
        self.0 ^= self.0 >> 7;
        self.0 ^= self.0 << 17;
        self.0
    }
    fn below(&mut self, n: u64) -> u64 {
        self.next() % n
    }
}

#[derive(Clone, Debug, PartialEq)]
enum Val {
    None,
    U32(u32),
    U64(u64),
    Str(String),
    Bytes(Vec<u8>),
    Unit,
    Tok(u32),
    Solo(u32),
}
impl Val {
    fn len(&self) -> usize {
        match self {
            Val::None => 0,
            Val::U32(_) => 4,
            Val::U64(_) => 8,
            Val::Str(s) => s.len(),
            Val::Bytes(b) => b.len(),
            Val::Unit => 0,
            Val::Tok(_) => 7,
            Val::Solo(_) => 3,
        }
    }
    fn clonable(&self) -> bool {
        !matches!(self, Val::Solo(_))
    }
}

fn fresh(r: &mut Rng, kind: u64) -> Val {
    let x = r.below(1000) as u32;
    match kind {
        0 => Val::U32(x),
        1 => Val::U64(x as u64 * 7),
        2 => Val::Str("s".repeat(r.below(40) as usize)),
        3 => Val::Bytes(vec![x as u8; r.below(300) as usize]),
        4 => Val::Unit,
        5 => Val::Tok(x),
        _ => Val::Solo(x),
    }
}

fn set(m: &mut Message, v: &Val) {
    match v {
        Val::None => {}
        Val::U32(x) => m.set_content(*x),
        Val::U64(x) => m.set_content(*x),
        Val::Str(s) => m.set_content(s.clone()),
        Val::Bytes(b) => m.set_content(b.clone()),
        Val::Unit => m.set_content(()),
        Val::Tok(x) => m.set_content(Tok::new(*x)),
        Val::Solo(x) => m.set_content_non_clonable(Solo(*x)),
    }
}

/// what the message reports when read as each of the types
fn read(m: &Message) -> Vec<Val> {
    let mut out = Vec::new();
    if let Some(x) = m.try_content::<u32>() { out.push(Val::U32(*x)); }
    if let Some(x) = m.try_content::<u64>() { out.push(Val::U64(*x)); }
    if let Some(x) = m.try_content::<String>() { out.push(Val::Str(x.clone())); }
    if let Some(x) = m.try_content::<Vec<u8>>() { out.push(Val::Bytes(x.clone())); }
    if m.try_content::<()>().is_some() { out.push(Val::Unit); }
    if let Some(x) = m.try_content::<Tok>() { out.push(Val::Tok(x.0)); }
    if let Some(x) = m.try_content::<Solo>() { out.push(Val::Solo(x.0)); }
    out
}

fn check(step: &str, m: &Message, want: &Val, log: &str) -> Result<(), (String, String, String)> {
    let got = read(m);
    let exp: Vec<Val> = if *want == Val::None { vec![] } else { vec![want.clone()] };
    if got != exp {
        return Err(("message-content-differs".into(), format!("after {}: readable as exactly {:?}", step, exp), format!("{:?} | script: {}", got, log)));
    }
    let wl = 64 + want.len();
    if m.length() != wl {
        return Err(("message-length-differs".into(), format!("after {}: length {} = 64 + {}", step, wl, want.len()), format!("{} | script: {}", m.length(), log)));
    }
    Ok(())
}

fn scenario(r: &mut Rng) -> Result<(), (String, String, String)> {
    let live0 = LIVE.load(Ordering::SeqCst);
    let mut log = String::new();
    {
        let mut msgs: Vec<(Message, Val)> = vec![(Message::default(), Val::None)];
        let steps = 2 + r.below(8);
        for _ in 0..steps {
            let i = r.below(msgs.len() as u64) as usize;
            match r.below(7) {
                0 | 1 => {
                    // set: same type as before (half of the time) or a random type
                    let kind = match (&msgs[i].1, r.below(2)) {
                        (Val::U32(_), 0) => 0, (Val::U64(_), 0) => 1, (Val::Str(_), 0) => 2, (Val::Bytes(_), 0) => 3, (Val::Unit, 0) => 4, (Val::Tok(_), 0) => 5, (Val::Solo(_), 0) => 6,
                        _ => r.below(7),
                    };
                    let v = fresh(r, kind);
                    log += &format!("set#{}({:?}); ", i, v);
                    set(&mut msgs[i].0, &v);
                    msgs[i].1 = v;
                    check("set_content", &msgs[i].0, &msgs[i].1, &log)?;
                }
                2 => {
                    // write through a mutable borrow of the right type
                    log += &format!("mut#{}; ", i);
                    if let Some(x) = msgs[i].0.try_content_mut::<u32>() { *x += 1; }
                    if let Val::U32(x) = &mut msgs[i].1 { *x += 1; }
                    if let Some(s) = msgs[i].0.try_content_mut::<String>() { s.push('x'); }
                    // the declared length of a body is fixed when it is stored (documented): the reference keeps the old length for strings
                    let keep = msgs[i].1.len();
                    if let Val::Str(s) = &mut msgs[i].1 { s.push('x'); }
                    let got = read(&msgs[i].0);
                    if got != vec![msgs[i].1.clone()] && msgs[i].1 != Val::None {
                        return Err(("message-content-differs".into(), format!("after try_content_mut: {:?}", msgs[i].1), format!("{:?} | script: {}", got, log)));
                    }
                    if msgs[i].0.length() != 64 + keep && msgs[i].0.length() != 64 + msgs[i].1.len() {
                        return Err(("message-length-differs".into(), format!("after try_content_mut: 64 + {} (or + {})", keep, msgs[i].1.len()), format!("{} | script: {}", msgs[i].0.length(), log)));
                    }
                    // normalise: re-set so that the reference and the message agree on the length again
                    let v = msgs[i].1.clone();
                    set(&mut msgs[i].0, &v);
                }
                3 => {
                    log += &format!("try_clone#{}; ", i);
                    let c = msgs[i].0.try_clone();
                    match (c, msgs[i].1.clonable()) {
                        (Some(c), true) => {
                            check("try_clone (the clone)", &c, &msgs[i].1, &log)?;
                            check("try_clone (the original)", &msgs[i].0, &msgs[i].1, &log)?;
                            let v = msgs[i].1.clone();
                            msgs.push((c, v));
                        }
                        (None, false) => check("failed try_clone", &msgs[i].0, &msgs[i].1, &log)?,
                        (c, want) => return Err(("message-clonability-differs".into(), format!("try_clone succeeds: {}", want), format!("{} | script: {}", c.is_some(), log))),
                    }
                }
                4 => {
                    // cast to a NON-matching type: must fail and leave the message intact
                    log += &format!("bad_cast#{}; ", i);
                    let (m, v) = msgs.remove(i);
                    let back = if matches!(v, Val::U32(_)) { m.try_cast::<u64>().map(|_| ()) } else { m.try_cast::<u32>().map(|_| ()) };
                    match back {
                        Ok(()) => return Err(("message-cast-reinterprets".into(), format!("try_cast to another type than {:?} fails", v), format!("Ok | script: {}", log))),
                        Err(m) => {
                            check("failed try_cast", &m, &v, &log)?;
                            msgs.insert(i, (m, v));
                        }
                    }
                }
                5 => {
                    // cast to the matching type: the value comes out
                    log += &format!("cast#{}; ", i);
                    let (m, v) = msgs.remove(i);
                    let ok = match &v {
                        Val::None => { drop(m); true }
                        Val::U32(x) => m.try_cast::<u32>().map(|(y, _)| y == *x).unwrap_or(false),
                        Val::U64(x) => m.try_cast::<u64>().map(|(y, _)| y == *x).unwrap_or(false),
                        Val::Str(s) => m.try_cast::<String>().map(|(y, _)| y == *s).unwrap_or(false),
                        Val::Bytes(b) => m.try_cast::<Vec<u8>>().map(|(y, _)| y == *b).unwrap_or(false),
                        Val::Unit => m.try_cast::<()>().is_ok(),
                        Val::Tok(x) => m.try_cast::<Tok>().map(|(y, _)| y.0 == *x).unwrap_or(false),
                        Val::Solo(x) => m.try_cast::<Solo>().map(|(y, _)| y.0 == *x).unwrap_or(false),
                    };
                    if !ok {
                        return Err(("message-cast-differs".into(), format!("try_cast to the stored type yields {:?}", v), format!("failed or other value | script: {}", log)));
                    }
                    msgs.insert(i, (Message::default(), Val::None));
                }
                _ => {
                    log += &format!("drop#{}; ", i);
                    if msgs.len() > 1 { msgs.remove(i); }
                }
            }
            // live tokens = number of messages holding a Tok
            let want_live = live0 + msgs.iter().filter(|(_, v)| matches!(v, Val::Tok(_))).count() as isize;
            if LIVE.load(Ordering::SeqCst) != want_live {
                return Err(("message-body-drop-count-differs".into(), format!("{} stored values alive", want_live - live0), format!("{} | script: {}", LIVE.load(Ordering::SeqCst) - live0, log)));
            }
        }
    }
    if LIVE.load(Ordering::SeqCst) != live0 {
        return Err(("message-body-drop-count-differs".into(), "every stored value dropped exactly once at the end".into(), format!("{} still alive (negative = dropped twice) | script: {}", LIVE.load(Ordering::SeqCst) - live0, log)));
    }
    Ok(())
}

fn esc(s: &str) -> String {
    s.replace('\\', "\\\\").replace('"', "\\\"")
}

fn main() {
    std::panic::set_hook(Box::new(|_| {}));
    let a: Vec<String> = std::env::args().collect();
    let count: u64 = a.get(2).and_then(|s| s.parse().ok()).unwrap_or(1000);
    let seed: u64 = a.get(3).and_then(|s| s.parse().ok()).unwrap_or(1);
    let mut r = Rng(0x9E3779B97F4A7C15 ^ seed.wrapping_mul(0xD1B54A32D192ED03));
    for n in 0..count {
        let res = std::panic::catch_unwind(std::panic::AssertUnwindSafe(|| scenario(&mut r)));
        let res = match res {
            Ok(x) => x,
            Err(_) => Err(("message-script-panicked".into(), "no panic".into(), "panic".into())),
        };
        if let Err((k, e, o)) = res {
            println!("{{\"mismatch\":true,\"kind\":\"{}\",\"props\":\"C16\",\"scenario_no\":{},\"scenario\":{{\"msg_script\":\"see observed\"}},\"expected\":\"{}\",\"observed\":\"{}\"}}", k, n, esc(&e), esc(&o));
            return;
        }
    }
    println!("{{\"scenarios\":{},\"sample\":\"random scripts of 2..9 operations on 1..n messages\"}}", count);
}
