//! net_driver — bounded replay for the parts of C07 / C14 (and the emission order of C03) that no contract reaches:
//! Channel::send_message / unbusy, the busy window, FIFO restart, delivery times, the processing-element bracket at the module
//! entry points. One module whose "out" gate is wired to its "in" gate through a channel; timers trigger sends of given sizes.
//! The observed log (processing brackets, handler calls with arrival times) is compared with a reference that simulates the
//! channel rules of the property on the abstract event order of units/core.vrs. Jitter is 0. Never counts as proof.
//!
//! usage: net_driver search <scenarios> <seed> [PROP]     exit 0 = no mismatch, 3 = mismatch (JSON on stdout)
use des::net::processing::*;
use des::prelude::*;
use std::sync::Mutex;
use std::time::Duration as StdDuration;

const TIMER: u16 = 7;
const DATA: u16 = 9;
const HEADER: usize = 64;

#[derive(Clone, Debug)]
struct SendAt { at_us: u64, size: usize, id: u16, direct: bool /* sent with send_in over a second, channel-less gate pair instead of being triggered by a timer */ }
#[derive(Clone, Debug)]
struct Scenario { bitrate: usize, latency_us: u64, policy: i64 /* -2 Drop, -1 Queue(None), >=0 Queue(Some(limit)) */, sends: Vec<SendAt>, consume_id: Option<u16>, end_err: u8 /* 0 = no, 1 = at_sim_end returns Err, 2 = a must-join task is still pending at the end (JoinError) */ }

// what was observed: ("start"|"incoming"|"end"|"handle", kind, id, time_ns)
static LOG: Mutex<Vec<(&'static str, u16, u16, u64)>> = Mutex::new(Vec::new());
static SENDS: Mutex<Vec<SendAt>> = Mutex::new(Vec::new());
static CONSUME: Mutex<Option<u16>> = Mutex::new(None);
static END_ERR: Mutex<u8> = Mutex::new(0);

fn now_ns() -> u64 { SimTime::now().as_nanos() as u64 }

struct Probe;
impl ProcessingElement for Probe {
    fn event_start(&mut self) { LOG.lock().unwrap().push(("start", 0, 0, now_ns())); }
    fn incoming(&mut self, msg: Message) -> Option<Message> {
        let (k, i) = (msg.header().kind, msg.header().id);
        LOG.lock().unwrap().push(("incoming", k, i, now_ns()));
        if k == DATA && *CONSUME.lock().unwrap() == Some(i) { None } else { Some(msg) }
    }
    fn event_end(&mut self) { LOG.lock().unwrap().push(("end", 0, 0, now_ns())); }
}
/// second element, further from the network: sees only what the first one passes on
struct Inner;
impl ProcessingElement for Inner {
    fn event_start(&mut self) { LOG.lock().unwrap().push(("start2", 0, 0, now_ns())); }
    fn incoming(&mut self, msg: Message) -> Option<Message> {
        LOG.lock().unwrap().push(("incoming2", msg.header().kind, msg.header().id, now_ns()));
        Some(msg)
    }
    fn event_end(&mut self) { LOG.lock().unwrap().push(("end2", 0, 0, now_ns())); }
}

struct Node;
impl Module for Node {
    fn stack(&self, mut stack: ProcessingStack) -> ProcessingStack { stack.append((Probe, Inner)); stack }
    fn at_sim_start(&mut self, _stage: usize) {
        if *END_ERR.lock().unwrap() == 2 {
            // a task the module promises to join that never finishes: tear-down reports a JoinError, the bracket must still close
            current().join(tokio::spawn(std::future::pending::<()>()));
        }
        let sends = SENDS.lock().unwrap().clone();
        for s in sends.iter() {
            if s.direct {
                send_in(Message::default().kind(DATA).id(s.id).with_content(vec![0u8; s.size]), "o2", StdDuration::from_micros(s.at_us));
            } else {
                schedule_in(Message::default().kind(TIMER).id(s.id), StdDuration::from_micros(s.at_us));
            }
        }
    }
    fn at_sim_end(&mut self) -> Result<(), RuntimeError> {
        // a tear-down that reports an error must still be bracketed by event_start / event_end
        if *END_ERR.lock().unwrap() == 1 { Err(RuntimeError::empty()) } else { Ok(()) }
    }
    fn handle_message(&mut self, msg: Message) {
        let (k, i) = (msg.header().kind, msg.header().id);
        LOG.lock().unwrap().push(("handle", k, i, now_ns()));
        if k == TIMER {
            let size = SENDS.lock().unwrap().iter().find(|s| s.id == i).map(|s| s.size).unwrap_or(0);
            send(Message::default().kind(DATA).id(i).with_content(vec![0u8; size]), "out");
        }
    }
}

// ---------------------------------------------------------------- reference
#[derive(Clone, Debug, PartialEq)]
enum Ev { Timer(u16), Unbusy, Exit(u16, usize), Handle(u16, usize) } // Exit/Handle carry (id, size) of a DATA message

struct Fes { zero: Vec<(u64, Ev)>, rest: Vec<(u64, u64, Ev)>, now: u64, ord: u64 }
impl Fes {
    fn add(&mut self, t: u64, e: Ev) { if t == self.now { self.zero.push((self.ord, e)); } else { self.rest.push((t, self.ord, e)); } self.ord += 1; }
    fn pop(&mut self) -> Option<(u64, Ev)> {
        if !self.zero.is_empty() { let (_, e) = self.zero.remove(0); return Some((self.now, e)); }
        if self.rest.is_empty() { return None; }
        let mut b = 0; for i in 1..self.rest.len() { if (self.rest[i].0, self.rest[i].1) < (self.rest[b].0, self.rest[b].1) { b = i; } }
        let (t, _, e) = self.rest.remove(b); self.now = t; Some((t, e))
    }
}

fn busy_ns(bitrate: usize, len: usize) -> u64 {
    if bitrate == 0 { 0 } else { StdDuration::from_secs_f64((len * 8) as f64 / bitrate as f64).as_nanos() as u64 }
}

fn reference(sc: &Scenario) -> Vec<(&'static str, u16, u16, u64)> {
    let mut log = vec![];
    let mut f = Fes { zero: vec![], rest: vec![], now: 0, ord: 0 };
    // at_sim_start (bracketed, no message): timers are buffered and flushed in emission order
    log.push(("start", 0, 0, 0)); log.push(("start2", 0, 0, 0)); log.push(("end2", 0, 0, 0)); log.push(("end", 0, 0, 0));
    // timers and delayed direct sends of one activation keep their emission order; a direct send with zero delay is walked inline
    for s in sc.sends.iter() {
        if s.direct { if s.at_us == 0 { f.add(0, Ev::Handle(s.id, s.size)); } else { f.add(s.at_us * 1000, Ev::Exit(s.id, s.size)); } }
        else { f.add(s.at_us * 1000, Ev::Timer(s.id)); }
    }
    let mut busy = false;
    let mut queue: Vec<(u16, usize)> = vec![];
    let mut acc: usize = 0;
    // transmit = Channel::send_message on an idle channel: schedules [Unbusy at now+busy (if busy != 0)], Exit at now+busy+latency
    fn transmit(sc: &Scenario, now: u64, id: u16, size: usize, busy: &mut bool, out: &mut Vec<(u64, Ev)>) {
        let len = size + HEADER;
        let b = busy_ns(sc.bitrate, len);
        if b != 0 { *busy = true; out.push((now + b, Ev::Unbusy)); }
        out.push((now + b + sc.latency_us * 1000, Ev::Exit(id, size)));
    }
    while let Some((t, e)) = f.pop() {
        match e {
            Ev::Timer(id) => {
                log.push(("start", 0, 0, t)); log.push(("incoming", TIMER, id, t)); log.push(("start2", 0, 0, t)); log.push(("incoming2", TIMER, id, t)); log.push(("handle", TIMER, id, t));
                let size = sc.sends.iter().find(|s| s.id == id).map(|s| s.size).unwrap_or(0);
                // send(.., "out") at the current time: handled inline against the channel, resulting events are buffered
                let mut out = vec![];
                if busy {
                    let len = size + HEADER;
                    match sc.policy { -2 => {}, -1 => { queue.push((id, size)); acc += len; }, lim => { if acc + len > lim as usize { } else { queue.push((id, size)); acc += len; } } }
                } else { transmit(sc, t, id, size, &mut busy, &mut out); }
                log.push(("end2", 0, 0, t)); log.push(("end", 0, 0, t));
                for (tt, ev) in out { f.add(tt, ev); }
            }
            Ev::Unbusy => {
                // the property: queued messages start transmission in FIFO order the instant the channel is idle —
                // a message whose transmission time rounds to 0 ns does not occupy the channel, so the next one follows at once
                busy = false;
                while !busy && !queue.is_empty() {
                    let (id, size) = queue.remove(0); acc -= size + HEADER;
                    let mut out = vec![]; transmit(sc, t, id, size, &mut busy, &mut out);
                    for (tt, ev) in out { f.add(tt, ev); }
                }
            }
            Ev::Exit(id, size) => { f.add(t, Ev::Handle(id, size)); }
            Ev::Handle(id, _size) => {
                log.push(("start", 0, 0, t)); log.push(("incoming", DATA, id, t)); log.push(("start2", 0, 0, t));
                if sc.consume_id != Some(id) { log.push(("incoming2", DATA, id, t)); log.push(("handle", DATA, id, t)); }
                log.push(("end2", 0, 0, t)); log.push(("end", 0, 0, t));
            }
        }
    }
    // at_sim_end bracket
    let t = f.now; log.push(("start", 0, 0, t)); log.push(("start2", 0, 0, t)); log.push(("end2", 0, 0, t)); log.push(("end", 0, 0, t));
    log
}

fn run(sc: &Scenario) -> Result<(), (&'static str, &'static str, String, String)> {
    LOG.lock().unwrap().clear();
    *SENDS.lock().unwrap() = sc.sends.clone();
    *CONSUME.lock().unwrap() = sc.consume_id;
    *END_ERR.lock().unwrap() = sc.end_err;
    let mut sim = Sim::new(());
    sim.node("root", Node);
    let g_in = sim.gate("root", "in");
    let g_out = sim.gate("root", "out");
    let policy = match sc.policy { -2 => ChannelDropBehaviour::Drop, -1 => ChannelDropBehaviour::Queue(None), l => ChannelDropBehaviour::Queue(Some(l as usize)) };
    let ch = Channel::new(ChannelMetrics::new(sc.bitrate, StdDuration::from_micros(sc.latency_us), StdDuration::ZERO, policy));
    g_out.connect(g_in, Some(ch));
    let g_o2 = sim.gate("root", "o2");
    let g_i2 = sim.gate("root", "i2");
    g_o2.connect(g_i2, None);
    let res = std::panic::catch_unwind(std::panic::AssertUnwindSafe(move || Builder::seeded(1).quiet().build(sim.freeze()).run()));
    if res.is_err() { return Err(("run-panicked", "C07 C14", "run() returns".into(), "panic".into())); }
    let got = LOG.lock().unwrap().clone();
    let exp = reference(sc);
    if got != exp {
        // classify
        let strip = |v: &Vec<(&'static str, u16, u16, u64)>| -> Vec<(u16, u64)> { v.iter().filter(|e| e.0 == "handle" && e.1 == DATA).map(|e| (e.2, e.3)).collect() };
        let (gd, ed) = (strip(&got), strip(&exp));
        let brackets = |v: &Vec<(&'static str, u16, u16, u64)>| -> Vec<&'static str> { v.iter().map(|e| e.0).collect() };
        let (kind, props) = if gd != ed {
            let mut a: Vec<u16> = gd.iter().map(|e| e.0).collect(); let mut b: Vec<u16> = ed.iter().map(|e| e.0).collect(); a.sort(); b.sort();
            if a != b { ("delivered-set-differs (lost / duplicated / wrongly dropped or queued)", "C07 C16") } else if gd.iter().map(|e| e.0).collect::<Vec<_>>() != ed.iter().map(|e| e.0).collect::<Vec<_>>() { ("delivery-order", "C07 C03 C14") } else { ("delivery-time", "C07 C16") }
        } else if brackets(&got) != brackets(&exp) { ("processing-bracket", "C14") } else { ("event-log", "C14 C07") };
        return Err((kind, props, format!("{:?}", exp), format!("{:?}", got)));
    }
    Ok(())
}

/// jitter > 0: delivery times cannot be predicted, only bounded: start + size*8/bitrate + latency <= t < ... + jitter.
/// Sends are 100 s apart, so the channel is idle at every send and nothing is reordered.
fn run_jitter(r: &mut dyn FnMut() -> u64) -> Result<(), (&'static str, &'static str, String, String, String)> {
    let bitrate = [0usize, 8_000_000][(r() % 2) as usize];
    let latency_us = [0u64, 100][(r() % 2) as usize];
    let jitter_ms = [200u64, 3_000, 10_000][(r() % 3) as usize];
    let n = 1 + (r() % 3) as usize;
    let sends: Vec<SendAt> = (0..n).map(|i| SendAt { at_us: i as u64 * 100_000_000, size: [0usize, 436, 1000][(r() % 3) as usize], id: (i + 1) as u16, direct: false }).collect();
    LOG.lock().unwrap().clear();
    *SENDS.lock().unwrap() = sends.clone();
    *CONSUME.lock().unwrap() = None;
    *END_ERR.lock().unwrap() = 0;
    let mut sim = Sim::new(());
    sim.node("root", Node);
    let g_in = sim.gate("root", "in");
    let g_out = sim.gate("root", "out");
    let ch = Channel::new(ChannelMetrics::new(bitrate, StdDuration::from_micros(latency_us), StdDuration::from_millis(jitter_ms), ChannelDropBehaviour::Queue(None)));
    g_out.connect(g_in, Some(ch));
    let seed = r();
    let res = std::panic::catch_unwind(std::panic::AssertUnwindSafe(move || Builder::seeded(seed).quiet().build(sim.freeze()).run()));
    let scen = format!("\"bitrate\":{},\"latency_us\":{},\"jitter_ms\":{},\"sends_at_us_size_id\":[{}]", bitrate, latency_us, jitter_ms, sends.iter().map(|s| format!("[{},{},{}]", s.at_us, s.size, s.id)).collect::<Vec<_>>().join(","));
    if res.is_err() { return Err(("run-panicked", "C07", "run() returns".into(), "panic".into(), scen)); }
    let got = LOG.lock().unwrap().clone();
    for s in sends.iter() {
        let lo = s.at_us * 1000 + busy_ns(bitrate, s.size + HEADER) + latency_us * 1000;
        let hi = lo + jitter_ms * 1_000_000;
        let at: Vec<u64> = got.iter().filter(|e| e.0 == "handle" && e.1 == DATA && e.2 == s.id).map(|e| e.3).collect();
        if at.len() != 1 || at[0] < lo || at[0] >= hi {
            return Err(("delivery-time-outside-jitter-window", "C07", format!("message {} delivered exactly once in [{} ns, {} ns)", s.id, lo, hi), format!("delivered at {:?} ns", at), scen));
        }
    }
    Ok(())
}

fn gen(r: &mut dyn FnMut() -> u64) -> Scenario {
    // incl. a bitrate so high that size*8/bitrate rounds to 0 ns: the channel is then never busy
    let bitrate = [0usize, 8_000_000, 1_000_000, 512_000, 10_000_000_000_000, 1_100_000_000_000][(r() % 6) as usize];
    let latency_us = [0u64, 100, 1500][(r() % 3) as usize];
    let many = r() % 10 == 0;
    let n = if many { 22 + (r() % 20) as usize } else { 1 + (r() % 6) as usize };
    let bitrate = if many { 0 } else { bitrate };
    let sizes = [0usize, 36, 64, 436, 1000];
    let mut sends = vec![];
    let mut t = 0u64;
    for i in 0..n {
        let size = sizes[(r() % sizes.len() as u64) as usize];
        // gaps: zero (burst), exactly one transmission time of the previous message, shorter, longer
        let prev_busy_us = sends.last().map(|s: &SendAt| busy_ns(bitrate, s.size + HEADER) / 1000).unwrap_or(0);
        let gap = match r() % 5 { 0 => 0, 1 => prev_busy_us, 2 => prev_busy_us / 2, 3 => prev_busy_us + 50, _ => 10 + r() % 3000 };
        t += gap;
        if many { t = [0u64, 1000, 2000, 3000, 1000][(r() % 5) as usize]; } // unsorted timers with many ties, scheduled in one activation
        sends.push(SendAt { at_us: t, size, id: (i + 1) as u16, direct: many && r() % 3 == 0 });
    }
    let total: usize = sends.iter().map(|s| s.size + HEADER).sum();
    let policy = match r() % 4 { 0 => -2, 1 => -1, 2 => 0, _ => { let l = r() as usize % (total + 1); if r() % 2 == 0 { l as i64 } else { (sends[(r() as usize) % sends.len()].size + HEADER) as i64 * (1 + (r() % 2) as i64) } } };
    let consume_id = if r() % 5 == 0 { Some(1 + (r() % n as u64) as u16) } else { None };
    let end_err = match r() % 9 { 0 => 1u8, 1 => 2u8, _ => 0u8 };
    Scenario { bitrate, latency_us, policy, sends, consume_id, end_err }
}

fn main() {
    let args: Vec<String> = std::env::args().collect();
    std::panic::set_hook(Box::new(|_| {}));
    let count: usize = args.get(2).and_then(|s| s.parse().ok()).unwrap_or(2000);
    let seed: u64 = args.get(3).and_then(|s| s.parse().ok()).unwrap_or(1);
    let filter = args.get(4).cloned().unwrap_or_default();
    let mut s = seed.wrapping_mul(6364136223846793005).wrapping_add(1442695040888963407) | 1;
    let mut rnd = move || { s ^= s << 13; s ^= s >> 7; s ^= s << 17; s };
    let mut other = String::new();
    for it in 0..count {
        if it % 12 == 5 {
            if let Err((kind, props, exp, got, scen)) = run_jitter(&mut rnd) {
                if filter.is_empty() || props.contains(filter.as_str()) {
                    println!("{{\"mismatch\":true,\"kind\":\"{}\",\"props\":\"{}\",\"scenario\":{{{},\"policy\":-1}},\"expected\":\"{}\",\"observed\":\"{}\"}}", kind, props, scen, exp.replace('"', "'"), got.replace('"', "'"));
                    std::process::exit(3);
                } else if other.is_empty() { other = format!("{} ({})", kind, props); }
            }
            continue;
        }
        let sc = gen(&mut rnd);
        if let Err((kind, props, exp, got)) = run(&sc) {
            if filter.is_empty() || props.contains(filter.as_str()) {
                let sends: Vec<String> = sc.sends.iter().map(|s| format!("[{},{},{}{}]", s.at_us, s.size, s.id, if s.direct { ",\"direct\"" } else { "" })).collect();
                println!("{{\"mismatch\":true,\"kind\":\"{}\",\"props\":\"{}\",\"scenario\":{{\"bitrate\":{},\"latency_us\":{},\"policy\":{},\"sends_at_us_size_id\":[{}],\"consume_id\":{},\"at_sim_end_returns_err\":{}}},\"expected\":\"{}\",\"observed\":\"{}\"}}",
                    kind, props, sc.bitrate, sc.latency_us, sc.policy, sends.join(","), sc.consume_id.map(|c| c as i64).unwrap_or(-1), sc.end_err, exp.replace('"', "'"), got.replace('"', "'"));
                std::process::exit(3);
            } else if other.is_empty() { other = format!("{} ({})", kind, props); }
        }
    }
    println!("{{\"mismatch\":false,\"scenarios\":{},\"other\":\"{}\"}}", count, other);
}
