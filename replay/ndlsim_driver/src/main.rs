//! Bounded replay for the second sentence of property C18 (never counted as proof): an UNMUTATED description generated from the NDL
//! template of replay/ndl_driver (same generator, copied) is built into a simulation on the real `des` crate
//! (SimBuilder::nodes_from_ndl with the default fallback registry); the modules (paths, clusters expanded) and the gate chains
//! (as the topology view reports them: one edge per direction between the owners of the two ends of a chain, labelled with the end gates)
//! are compared with what the template denotes.
//! usage: ndlsim_driver search <count> <seed>
use des::net::ndl::Registry;
use des::prelude::*;
use des_net_utils::ndl::def::Def;

struct Rng(u64);
impl Rng {
    fn next(&mut self) -> u64 {
        self.0 ^= self.0 << 13;
        self.0 ^= self.0 >> 7;
        self.0 ^= self.0 << 17;
        self.0
    }
    fn below(&mut self, n: u64) -> u64 {
        self.next() % n
    }
}

struct Gen {
    n: usize,
    has_y: bool,
    text: String,
    mutation: String,
    valid: bool,
    top_fields: usize,
}

fn gen(r: &mut Rng) -> Gen {
    let mutate = r.below(4) != 0;
    let kind = if mutate { 1 + r.below(30) } else { 0 };
    let m = |k: u64| kind == k;
    let mut t = String::new();
    let entry = if m(12) { "Nope" } else { "Top" };
    t += &format!("entry: {}\nmodules:\n", entry);
    // interface + leaves
    t += "  I:\n    gates:\n      - port\n";
    t += &format!("  L0:\n    inherit: {}\n    gates:\n      - extra\n", if m(14) { "Nope" } else { "I" });
    t += &format!("  L1:\n    gates:\n      - port\n      - {}\n", if m(4) { "\"in[0]\"" } else if m(13) { "\"in[x]\"" } else if m(23) { "\"in]\"" } else { "\"in[3]\"" });
    t += "  Bare:\n    gates:\n      - other\n";
    // generic type
    let gen_head = if m(15) { "G(T <- Nope)" } else if m(16) { "G(T <- I, T <- I)" } else if m(17) { "G(T <- I" } else if m(18) { "G(T < I)" } else { "G(T <- I)" };
    t += &format!("  \"{}\":\n{}    submodules:\n      c: {}\n    gates:\n      - up\n    connections:\n      - peers:\n          - up\n          - c/port\n", gen_head, if m(27) { "    inherit: T\n" } else { "" }, if m(25) { "\"T(L0)\"" } else { "T" });
    if m(26) {
        t += "  \"H(U <- I)\":\n    submodules:\n      d: \"G(U)\"\n";
    }
    // inheritance with connections: the child declares none of its own
    t += "  P:\n    submodules:\n      s: L1\n    gates:\n      - pg\n    connections:\n      - peers:\n          - pg\n          - s/port\n";
    t += "  Q:\n    inherit: P\n    gates:\n      - qg\n";
    // mid-level composite
    let n = 2 + r.below(3);
    let n2 = if m(5) { n + 1 } else { n };
    t += "  Mid:\n    submodules:\n";
    t += &format!("      \"a[{}]\": L1\n", n);
    t += &format!("      \"b[{}]\": {}\n", n2, if m(1) { "Nope" } else { "L1" });
    t += &format!("    gates:\n      - up\n      - \"wide[{}]\"\n", 3 * n);
    t += "    connections:\n";
    t += "      - peers:\n          - wide\n          - a/in\n";
    t += &format!("      - peers:\n          - a/port\n          - b/{}\n", if m(2) { "nope" } else { "port" });
    t += &format!("      - peers:\n          - up\n          - \"a[{}]/in[{}]\"\n", if m(3) { n } else { 0 }, if m(19) { 3 } else { 1 });
    if m(6) {
        t += "  Cyc:\n    submodules:\n      t: Top\n";
    }
    // top
    let garg = if m(7) { "G(L0" } else if m(8) { "G(G)" } else if m(9) { "G(Bare)" } else if m(10) { "G(L0, L0)" } else if m(20) { "G()" } else if m(21) { "G(L0,L1)" } else if m(22) { "G(Nope)" } else { "G(L0)" };
    t += "  Top:\n    submodules:\n";
    t += "      mid: Mid\n";
    t += &format!("      g: \"{}\"\n", garg);
    t += &format!("      {}: L1\n", if m(24) { "\"x]\"" } else { "x" });
    t += "      q: Q\n";
    let mut top_fields = 4;
    if m(26) {
        t += "      h: \"H(L0)\"\n";
        top_fields += 1;
    }
    if m(6) {
        t += "      cy: Cyc\n";
        top_fields += 1;
    }
    let has_y = r.below(2) == 0;
    if has_y {
        t += "      \"y[2]\": L0\n";
        top_fields += 1;
    }
    t += "    connections:\n";
    t += &format!("      - peers:\n          - mid/up\n          - g/up\n        link: {}\n", if m(11) { "Nope" } else { "Fast" });
    t += &format!("      - peers:\n          - x/port\n          - \"{}\"\n", if m(28) { "" } else if m(29) { "/" } else if m(30) { " " } else { "x/in[2]" });
    t += "links:\n  Fast:\n    latency: 0.01\n    jitter: 0.0\n    bitrate: 100000\n";
    Gen { n: n as usize, has_y, text: t, mutation: if kind == 0 { "none".into() } else { format!("m{}", kind) }, valid: kind == 0, top_fields }
}


fn expected_nodes(n: usize, has_y: bool) -> Vec<String> {
    let mut v: Vec<String> = vec!["".into(), "mid".into(), "g".into(), "g.c".into(), "x".into(), "q".into(), "q.s".into()];
    for i in 0..n {
        v.push(format!("mid.a[{}]", i));
        v.push(format!("mid.b[{}]", i));
    }
    if has_y {
        v.push("y[0]".into());
        v.push("y[1]".into());
    }
    v.sort();
    v
}

/// chains of the template, as (owner, gate, owner, gate) of the two ends; reported once per direction
fn expected_edges(n: usize) -> Vec<(String, String, String, String)> {
    let mut e: Vec<(String, String, String, String)> = Vec::new();
    let mut both = |a: (String, String), b: (String, String)| {
        e.push((a.0.clone(), a.1.clone(), b.0.clone(), b.1.clone()));
        e.push((b.0, b.1, a.0, a.1));
    };
    both(("x".into(), "port".into()), ("x".into(), "in[2]".into()));
    for i in 0..n {
        both((format!("mid.a[{}]", i), "port".into()), (format!("mid.b[{}]", i), "port".into()));
    }
    for k in 0..3 * n {
        if k == 1 {
            continue;
        }
        both(("mid".into(), format!("wide[{}]", k)), (format!("mid.a[{}]", k / 3), format!("in[{}]", k % 3)));
    }
    // wide[1] - a[0].in[1] - mid.up - g.up - g.c.port is ONE chain
    both(("mid".into(), "wide[1]".into()), ("g.c".into(), "port".into()));
    both(("q".into(), "pg".into()), ("q.s".into(), "port".into()));
    e.sort();
    e
}

fn gname(g: &GateRef) -> String {
    if g.size() > 1 { format!("{}[{}]", g.name(), g.pos()) } else { g.name().to_string() }
}

fn esc(s: &str) -> String {
    s.replace('\\', "\\\\").replace('"', "\\\"").replace('\n', "\\n")
}

fn run(g: &Gen) -> Result<(), (String, String, String)> {
    let text = g.text.clone();
    let res = std::panic::catch_unwind(std::panic::AssertUnwindSafe(move || {
        let def: Def = serde_yml::from_str(&text).map_err(|e| format!("parse error: {}", e))?;
        let mut sim = Sim::new(());
        sim.nodes_from_ndl(&def, Registry::new().with_default_fallback()).map_err(|e| format!("build error: {}", e))?;
        let topo = sim.globals().topology();
        let mut nodes: Vec<String> = topo.nodes().iter().map(|n| n.module().path().to_string()).collect();
        nodes.sort();
        let mut edges: Vec<(String, String, String, String)> = topo.edges().map(|e| (e.from.module().path().to_string(), gname(&e.from.gate()), e.to.module().path().to_string(), gname(&e.to.gate()))).collect();
        edges.sort();
        Ok::<_, String>((nodes, edges))
    }));
    match res {
        Err(_) => Err(("ndl-build-panicked".into(), "the simulation is built".into(), "panic".into())),
        Ok(Err(e)) => Err(("ndl-valid-description-not-built".into(), "Ok".into(), e)),
        Ok(Ok((nodes, edges))) => {
            let wn = expected_nodes(g.n, g.has_y);
            if nodes != wn {
                return Err(("ndl-built-modules-differ".into(), format!("{:?}", wn), format!("{:?}", nodes)));
            }
            let we = expected_edges(g.n);
            if edges != we {
                let miss: Vec<_> = we.iter().filter(|x| !edges.contains(x)).take(4).collect();
                let extra: Vec<_> = edges.iter().filter(|x| !we.contains(x)).take(4).collect();
                return Err(("ndl-built-connections-differ".into(), format!("{} chain ends, e.g. missing {:?}", we.len(), miss), format!("{} chain ends, e.g. unexpected {:?}", edges.len(), extra)));
            }
            Ok(())
        }
    }
}

fn main() {
    if std::env::var("DRIVER_VERBOSE").is_err() {
        std::panic::set_hook(Box::new(|_| {}));
    }
    let a: Vec<String> = std::env::args().collect();
    let count: u64 = a.get(2).and_then(|s| s.parse().ok()).unwrap_or(100);
    let seed: u64 = a.get(3).and_then(|s| s.parse().ok()).unwrap_or(1);
    let mut r = Rng(0x9E3779B97F4A7C15 ^ seed.wrapping_mul(0xD1B54A32D192ED03));
    let mut done = 0u64;
    let mut sample = String::new();
    while done < count {
        let g = gen(&mut r);
        if !g.valid {
            continue;
        }
        if done == 0 {
            sample = esc(&g.text);
        }
        done += 1;
        if let Err((k, e, o)) = run(&g) {
            println!("{{\"mismatch\":true,\"kind\":\"{}\",\"props\":\"C18\",\"scenario_no\":{},\"mutation\":\"none\",\"scenario\":{{\"n\":{},\"has_y\":{},\"ndlsim_text\":\"{}\"}},\"expected\":\"{}\",\"observed\":\"{}\"}}", k, done, g.n, g.has_y, esc(&g.text), esc(&e), esc(&o));
            return;
        }
    }
    println!("{{\"scenarios\":{},\"sample\":\"{}\"}}", count, sample);
}
