//! Bounded replay for property C17 at the level of the simulation builder (never counted as proof): nodes and configurations are
//! added to a `Sim` in random interleavings ("regardless of whether the configuration was included before or after the node was
//! created"); every module reports its property set at start-up; compared with the property statement read literally.
//! usage: cfgsim_driver search <count> <seed>
use des::prelude::*;
use std::sync::{Arc, Mutex};

struct Rng(u64);
impl Rng {
    fn next(&mut self) -> u64 {
        self.0 ^= self.0 << 13;
        self.0 ^= self.0 >> 7;
        self.0 ^= self.0 << 17;
        self.0
    }
    fn below(&mut self, n: u64) -> u64 {
        self.next() % n
    }
}

const ANY: &str = "<any>";
const NAMES: [&str; 6] = ["a", "ab", "b", "bob", "n", "x1"];
const PROPS: [&str; 4] = ["x", "y", "addr", "x.y"];

type Report = Arc<Mutex<Vec<(String, Vec<(String, Option<i64>)>)>>>;

struct M {
    out: Report,
}
impl Module for M {
    fn at_sim_start(&mut self, _stage: usize) {
        let c = current();
        let mut keys = c.props_keys();
        keys.sort();
        let vals = keys.iter().map(|k| (k.clone(), c.prop_raw(k).as_value().and_then(|v| v.as_i64()))).collect();
        self.out.lock().unwrap().push((c.path().to_string(), vals));
    }
}

#[derive(Clone, Debug)]
enum Op {
    Node(String),
    Cfg(Vec<(String, i64)>),
}

fn gen(r: &mut Rng) -> Vec<Op> {
    // a small tree: parents before children
    let mut paths: Vec<String> = Vec::new();
    let tops = 1 + r.below(3) as usize;
    for _ in 0..tops {
        let n = NAMES[r.below(NAMES.len() as u64) as usize].to_string();
        if !paths.contains(&n) {
            paths.push(n);
        }
    }
    let extra = r.below(4) as usize;
    for _ in 0..extra {
        let parent = paths[r.below(paths.len() as u64) as usize].clone();
        if parent.split('.').count() >= 3 {
            continue;
        }
        let p = format!("{}.{}", parent, NAMES[r.below(NAMES.len() as u64) as usize]);
        if !paths.contains(&p) {
            paths.push(p);
        }
    }
    let ncfg = 1 + r.below(2) as usize;
    let mut cfgs: Vec<Vec<(String, i64)>> = Vec::new();
    for c in 0..ncfg {
        let mut v: Vec<(String, i64)> = Vec::new();
        let n = 1 + r.below(5) as usize;
        for e in 0..n {
            let target: Vec<String> = paths[r.below(paths.len() as u64) as usize].split('.').map(|s| s.to_string()).collect();
            let mut segs: Vec<String> = Vec::new();
            for s in &target {
                segs.push(match r.below(6) {
                    0 => ANY.to_string(),
                    1 => NAMES[r.below(NAMES.len() as u64) as usize].to_string(),
                    _ => s.clone(),
                });
            }
            segs.push(PROPS[r.below(PROPS.len() as u64) as usize].to_string());
            let key = segs.join(".");
            if v.iter().any(|(k, _)| *k == key) {
                continue;
            }
            v.push((key, (100 * (c + 1) + e) as i64));
        }
        cfgs.push(v);
    }
    // interleave: each cfg goes to a random position among the node creations
    let mut ops: Vec<Op> = paths.iter().map(|p| Op::Node(p.clone())).collect();
    for c in cfgs {
        let at = r.below(ops.len() as u64 + 1) as usize;
        ops.insert(at, Op::Cfg(c));
    }
    ops
}

fn reference(cfgs: &[Vec<(String, i64)>], path: &str) -> Vec<(String, Vec<i64>)> {
    let path: Vec<&str> = path.split('.').collect();
    let mut out: Vec<(String, Vec<i64>)> = Vec::new();
    for entries in cfgs {
        for (k, v) in entries {
            let segs: Vec<&str> = k.split('.').collect();
            if segs.len() <= path.len() || !(0..path.len()).all(|j| segs[j] == path[j] || segs[j] == ANY) {
                continue;
            }
            let name = segs[path.len()..].join(".");
            if name.contains(ANY) {
                continue;
            }
            match out.iter_mut().find(|(n, _)| *n == name) {
                Some((_, vs)) => vs.push(*v),
                None => out.push((name, vec![*v])),
            }
        }
    }
    out
}

fn esc(s: &str) -> String {
    s.replace('\\', "\\\\").replace('"', "\\\"")
}

fn ops_json(ops: &[Op]) -> String {
    let v: Vec<String> = ops
        .iter()
        .map(|o| match o {
            Op::Node(p) => format!("{{\"node\":\"{}\"}}", esc(p)),
            Op::Cfg(c) => format!("{{\"include_cfg\":[{}]}}", c.iter().map(|(k, x)| format!("[\"{}\",{}]", esc(k), x)).collect::<Vec<_>>().join(",")),
        })
        .collect();
    format!("{{\"cfgsim_ops\":[{}]}}", v.join(","))
}

fn run(ops: &[Op]) -> Result<(), (String, String, String)> {
    let out: Report = Arc::new(Mutex::new(Vec::new()));
    let o2 = out.clone();
    let ops2 = ops.to_vec();
    let res = std::panic::catch_unwind(std::panic::AssertUnwindSafe(move || {
        let mut sim = Sim::new(());
        for op in &ops2 {
            match op {
                Op::Node(p) => {
                    sim.node(p.as_str(), M { out: o2.clone() });
                }
                Op::Cfg(c) => {
                    let text: String = c.iter().map(|(k, v)| format!("\"{}\": {}\n", k, v)).collect();
                    sim.include_cfg(&text);
                }
            }
        }
        Builder::seeded(1).quiet().build(sim.freeze()).run()
    }));
    if res.is_err() {
        return Err(("cfgsim-panicked".into(), "the simulation is built and runs".into(), "panic".into()));
    }
    let cfgs: Vec<Vec<(String, i64)>> = ops.iter().filter_map(|o| if let Op::Cfg(c) = o { Some(c.clone()) } else { None }).collect();
    let got = out.lock().unwrap().clone();
    for op in ops {
        if let Op::Node(p) = op {
            let want = reference(&cfgs, p);
            let Some((_, have)) = got.iter().find(|(q, _)| q == p) else {
                return Err(("module-did-not-report".into(), format!("{} starts", p), "no report".into()));
            };
            for (name, v) in have {
                match want.iter().find(|(n, _)| n == name) {
                    None => return Err(("foreign-entry-delivered".into(), format!("module {}: no property `{}`", p, name), format!("`{}` = {:?}", name, v))),
                    Some((_, vs)) => {
                        if !v.map(|x| vs.contains(&x)).unwrap_or(false) {
                            return Err(("value-of-no-matching-entry".into(), format!("module {}: `{}` in {:?}", p, name, vs), format!("{:?}", v)));
                        }
                    }
                }
            }
            for (name, vs) in &want {
                if !have.iter().any(|(n, _)| n == name) {
                    return Err(("addressed-entry-not-delivered".into(), format!("module {}: `{}` in {:?}", p, name, vs), "absent".into()));
                }
            }
        }
    }
    Ok(())
}

fn main() {
    std::panic::set_hook(Box::new(|_| {}));
    let a: Vec<String> = std::env::args().collect();
    let count: u64 = a.get(2).and_then(|s| s.parse().ok()).unwrap_or(1000);
    let seed: u64 = a.get(3).and_then(|s| s.parse().ok()).unwrap_or(1);
    let mut r = Rng(0x9E3779B97F4A7C15 ^ seed.wrapping_mul(0xD1B54A32D192ED03));
    let mut sample = String::new();
    for n in 0..count {
        let ops = gen(&mut r);
        if n == 0 {
            sample = ops_json(&ops);
        }
        if let Err((k, e, o)) = run(&ops) {
            println!("{{\"mismatch\":true,\"kind\":\"{}\",\"props\":\"C17\",\"scenario_no\":{},\"scenario\":{},\"expected\":\"{}\",\"observed\":\"{}\"}}", k, n, ops_json(&ops), esc(&e), esc(&o));
            return;
        }
    }
    println!("{{\"scenarios\":{},\"sample\":{}}}", count, sample);
}
