//! shutdown_driver — bounded replay for C09 on the REAL `des` crate. Module `a` runs a ticking task, receives messages from `b`, lends two
//! transit gates to a chain b -> a.t1 - a.t2 -> c, and at time S asks for shutdown (with or without restart after R). Checked against
//! what the property prescribes: from the end of the requesting event until the restart nothing of `a` runs (no handler, no tick of the
//! old task, not even later), messages addressed to `a` or passing its gates in that window are dropped for good, reset runs exactly
//! once (at S), the start-up stages run exactly once more at exactly S + R, afterwards `a` works like a freshly started module (new task
//! ticks, messages handled), and `b`, `c` and the direct link b -> c are unaffected throughout. Never counts as proof.
//! Times: ticks on multiples of 10 ms, S at 10k+1 ms, messages at 10k+3/5/7 ms, so nothing coincides.
//!
//! usage: shutdown_driver search <scenarios> <seed>     exit 0 = no mismatch, 3 = mismatch (JSON on stdout)
use des::prelude::*;
use des::time::sleep;
use std::sync::Mutex;
use std::time::Duration as StdDuration;

const SHUT: u16 = 900;
#[derive(Clone, Debug, Default)]
struct Scn { stages: usize, tick_ms: u64, nticks: usize, shut_at_ms: u64, restart_after_ms: Option<u64>, use_at: bool, again_after_ms: Option<u64>, to_a_ms: Vec<u64>, via_a_ms: Vec<u64>, direct_ms: Vec<u64> }

static SCN: Mutex<Option<Scn>> = Mutex::new(None);
static LOG: Mutex<Vec<(String, String, u64)>> = Mutex::new(Vec::new()); // (module, what, time_us)
static STARTS: Mutex<usize> = Mutex::new(0);

fn now_us() -> u64 { SimTime::now().as_micros() as u64 }
fn log(m: &str, what: String) { LOG.lock().unwrap().push((m.to_string(), what, now_us())); }
fn ms(d: u64) -> StdDuration { StdDuration::from_millis(d) }

struct A;
impl Module for A {
    fn num_sim_start_stages(&self) -> usize { SCN.lock().unwrap().as_ref().unwrap().stages }
    fn at_sim_start(&mut self, stage: usize) {
        let sc = SCN.lock().unwrap().clone().unwrap();
        log("a", format!("start({})", stage));
        if stage == 0 {
            let gen = { let mut s = STARTS.lock().unwrap(); *s += 1; *s };
            // a (re)started module is active while its start-up stages run: what it sends through its own gate goes out
            send(Message::default().id(400 + gen as u16), "out");
            tokio::spawn(async move {
                for k in 0..sc.nticks { sleep(ms(sc.tick_ms)).await; log("a", format!("tick(gen{},{})", gen, k)); }
            });
            if gen == 1 { schedule_in(Message::default().kind(SHUT), ms(sc.shut_at_ms)); }
            // the second incarnation may ask for another shutdown + restart from its own start-up
            if gen == 2 { if let Some(r2) = sc.again_after_ms { log("a", "shutdown-requested-again".into()); current().shutdow_and_restart_in(ms(r2)); } }
        }
    }
    fn handle_message(&mut self, msg: Message) {
        if msg.header().kind == SHUT {
            let sc = SCN.lock().unwrap().clone().unwrap();
            log("a", "shutdown-requested".into());
            // the module is inert from the END of this event: what it sends in this event still goes out
            send(Message::default().id(450), "out");
            match sc.restart_after_ms {
                Some(r) if sc.use_at => current().shutdow_and_restart_at(SimTime::now() + ms(r)),
                Some(r) => current().shutdow_and_restart_in(ms(r)),
                None => current().shutdown(),
            }
        } else {
            log("a", format!("msg({})", msg.header().id));
        }
    }
    fn reset(&mut self) { let who = current().path().to_string(); log("a", format!("reset(in context of {})", who)); }
}

struct B;
impl Module for B {
    fn at_sim_start(&mut self, _: usize) {
        let sc = SCN.lock().unwrap().clone().unwrap();
        for (i, t) in sc.to_a_ms.iter().enumerate() { send_in(Message::default().id(100 + i as u16), "to_a", ms(*t)); }
        for (i, t) in sc.via_a_ms.iter().enumerate() { send_in(Message::default().id(200 + i as u16), "via_a", ms(*t)); }
        for (i, t) in sc.direct_ms.iter().enumerate() { send_in(Message::default().id(300 + i as u16), "direct", ms(*t)); }
        tokio::spawn(async move { for k in 0..6u64 { sleep(ms(20)).await; log("b", format!("tick({})", k)); } });
    }
}

struct C;
impl Module for C {
    fn handle_message(&mut self, msg: Message) { log("c", format!("msg({})", msg.header().id)); }
}

fn expected(sc: &Scn) -> Vec<(String, String, u64)> {
    let mut out: Vec<(String, String, u64)> = vec![];
    let s = sc.shut_at_ms * 1000;
    let back = sc.restart_after_ms.map(|r| s + r * 1000);
    let again = match (back, sc.again_after_ms) { (Some(b), Some(r2)) => Some(b + r2 * 1000), _ => None };
    let last_up = again.or(back);
    let up = |t_us: u64| t_us < s || last_up.map(|b| t_us > b).unwrap_or(false);
    for st in 0..sc.stages { out.push(("a".into(), format!("start({})", st), 0)); }
    for k in 0..sc.nticks { let t = (k as u64 + 1) * sc.tick_ms * 1000; if t < s { out.push(("a".into(), format!("tick(gen1,{})", k), t)); } }
    out.push(("a".into(), "shutdown-requested".into(), s));
    out.push(("a".into(), "reset(in context of a)".into(), s));
    out.push(("c".into(), "msg(450)".into(), s));
    out.push(("c".into(), "msg(401)".into(), 0));
    if let Some(b) = back { out.push(("c".into(), "msg(402)".into(), b)); }
    if let Some(b) = back {
        for st in 0..sc.stages { out.push(("a".into(), format!("start({})", st), b)); }
        match again {
            None => { for k in 0..sc.nticks { out.push(("a".into(), format!("tick(gen2,{})", k), b + (k as u64 + 1) * sc.tick_ms * 1000)); } }
            Some(b2) => {
                // asked again during its start-up: all stages still run, then it is reset once more and is inert until b2
                out.push(("a".into(), "shutdown-requested-again".into(), b));
                out.push(("a".into(), "reset(in context of a)".into(), b));
                for st in 0..sc.stages { out.push(("a".into(), format!("start({})", st), b2)); }
                out.push(("c".into(), "msg(403)".into(), b2));
                for k in 0..sc.nticks { out.push(("a".into(), format!("tick(gen3,{})", k), b2 + (k as u64 + 1) * sc.tick_ms * 1000)); }
            }
        }
    }
    for (i, t) in sc.to_a_ms.iter().enumerate() { if up(t * 1000) { out.push(("a".into(), format!("msg({})", 100 + i), t * 1000)); } }
    for (i, t) in sc.via_a_ms.iter().enumerate() { if up(t * 1000) { out.push(("c".into(), format!("msg({})", 200 + i), t * 1000)); } }
    for (i, t) in sc.direct_ms.iter().enumerate() { out.push(("c".into(), format!("msg({})", 300 + i), t * 1000)); }
    for k in 0..6u64 { out.push(("b".into(), format!("tick({})", k), (k + 1) * 20_000)); }
    out
}

fn main() {
    let args: Vec<String> = std::env::args().collect();
    let count: usize = args.get(2).and_then(|s| s.parse().ok()).unwrap_or(2000);
    let seed: u64 = args.get(3).and_then(|s| s.parse().ok()).unwrap_or(1);
    let mut s = seed.wrapping_mul(6364136223846793005).wrapping_add(1442695040888963407) | 1;
    let mut rnd = move || { s ^= s << 13; s ^= s >> 7; s ^= s << 17; s };
    std::panic::set_hook(Box::new(|_| {}));
    let mut last = String::new();
    for _ in 0..count {
        let times = |r: &mut dyn FnMut() -> u64, off: u64| -> Vec<u64> { let mut v: Vec<u64> = (0..r() % 5).map(|_| (r() % 15) * 10 + off).collect(); v.sort(); v.dedup(); v };
        let sc = Scn {
            stages: 1 + (rnd() % 3) as usize, tick_ms: 10 * (1 + rnd() % 3), nticks: 1 + (rnd() % 6) as usize,
            shut_at_ms: (1 + rnd() % 8) * 10 + 1, restart_after_ms: if rnd() % 4 == 0 { None } else { Some((rnd() % 7) * 10) }, use_at: rnd() % 2 == 0, again_after_ms: if rnd() % 4 == 0 { Some((1 + rnd() % 4) * 10) } else { None },
            to_a_ms: times(&mut rnd, 3), via_a_ms: times(&mut rnd, 5), direct_ms: times(&mut rnd, 7),
        };
        last = format!("{:?}", sc);
        *SCN.lock().unwrap() = Some(sc.clone());
        LOG.lock().unwrap().clear();
        *STARTS.lock().unwrap() = 0;
        let mut sim = Sim::new(());
        sim.node("a", A); sim.node("b", B); sim.node("c", C);
        sim.gate("b", "to_a").connect(sim.gate("a", "in"), None);
        let (t1, t2) = (sim.gate("a", "t1"), sim.gate("a", "t2"));
        sim.gate("b", "via_a").connect(t1.clone(), None);
        t1.connect(t2.clone(), None);
        t2.connect(sim.gate("c", "in"), None);
        sim.gate("b", "direct").connect(sim.gate("c", "in2"), None);
        sim.gate("a", "out").connect(sim.gate("c", "in3"), None);
        let res = std::panic::catch_unwind(std::panic::AssertUnwindSafe(move || Builder::seeded(1).quiet().build(sim.freeze()).run()));
        let mut got = LOG.lock().unwrap().clone();
        let mut want = expected(&sc);
        let key = |e: &(String, String, u64)| (e.2, e.0.clone(), e.1.clone());
        got.sort_by_key(key);
        want.sort_by_key(key);
        let mut bad: Option<(&str, String, String)> = None;
        if res.is_err() { bad = Some(("run-panicked", "run() returns".into(), "panic".into())); }
        else if let Ok(Err(e)) = &res { bad = Some(("run-reports-error", "Ok: no module of the scenario fails".into(), format!("{:?}", e).chars().take(300).collect())); }
        else if got != want {
            let extra: Vec<_> = got.iter().filter(|e| !want.contains(e)).collect();
            let missing: Vec<_> = want.iter().filter(|e| !got.contains(e)).collect();
            bad = Some(("shutdown-restart-behaviour", format!("missing (module, what, at_us): {:?}", missing), format!("unexpected: {:?}", extra)));
        }
        if let Some((kind, exp, obs)) = bad {
            println!("{{\"mismatch\":true,\"kind\":\"{}\",\"props\":\"C09\",\"scenario\":{{\"shutdown_scenario\":\"{}\"}},\"expected\":\"{}\",\"observed\":\"{}\"}}", kind, last.replace('"', "'"), exp.replace('"', "'"), obs.replace('"', "'"));
            std::process::exit(3);
        }
    }
    println!("{{\"mismatch\":false,\"scenarios\":{},\"other\":\"\",\"sample\":\"{}\"}}", count, last.replace('"', "'"));
}
