//! panic_driver — bounded replay for C13 on the REAL `des` crate. Module `f` panics at a chosen point (a start-up stage, its n-th
//! message, its tear-down); `g` sends it messages which `f` echoes while it is alive, `g` also feeds `h` over a direct link, and `h`
//! ticks on its own. Checked: the simulator never aborts; from the panic on `f` is silent (no handler runs, nothing is echoed, its
//! timers do not fire); `g` and `h` see exactly what they would see had `f` merely fallen silent; `run()` returns an error that lists
//! exactly `f` — or succeeds if `f`'s stereotype declares panics as caught; a second simulation in the same process runs normally.
//! Never counts as proof.
//!
//! usage: panic_driver search <scenarios> <seed>     exit 0 = no mismatch, 3 = mismatch (JSON on stdout)
use des::net::module::Stereotyp;
use des::prelude::*;
use des::time::sleep;
use std::sync::Mutex;
use std::time::Duration as StdDuration;

#[derive(Clone, Debug, PartialEq)]
enum Point { Never, Stage(usize), Msg(usize), End }
#[derive(Clone, Debug)]
struct Scn { stages: usize, point: Point, catches: bool, to_f_ms: Vec<u64>, to_h_ms: Vec<u64>, f_shuts_down_at_first_msg: bool, g_panics_at_end: bool }

static SCN: Mutex<Option<Scn>> = Mutex::new(None);
static LOG: Mutex<Vec<(String, String, u64)>> = Mutex::new(Vec::new());
static SEEN: Mutex<usize> = Mutex::new(0);

fn now_us() -> u64 { SimTime::now().as_micros() as u64 }
fn log(m: &str, what: String) { LOG.lock().unwrap().push((m.to_string(), what, now_us())); }
fn ms(d: u64) -> StdDuration { StdDuration::from_millis(d) }

struct F;
impl Module for F {
    fn num_sim_start_stages(&self) -> usize { SCN.lock().unwrap().as_ref().unwrap().stages }
    fn at_sim_start(&mut self, stage: usize) {
        let sc = SCN.lock().unwrap().clone().unwrap();
        if stage == 0 {
            if sc.catches { current().set_stereotyp(Stereotyp { on_panic_catch: true, ..Stereotyp::HOST }); }
            // a ticking task of f: silent after the panic as well
            tokio::spawn(async move { for k in 0..8u64 { sleep(ms(20)).await; log("f", format!("tick({})", k)); } });
        }
        log("f", format!("start({})", stage));
        if sc.point == Point::Stage(stage) { panic!("fault injected by panic_driver"); }
    }
    fn handle_message(&mut self, msg: Message) {
        let sc = SCN.lock().unwrap().clone().unwrap();
        let n = { let mut s = SEEN.lock().unwrap(); *s += 1; *s };
        if sc.point == Point::Msg(n) {
            log("f", format!("panics-at-msg({})", msg.header().id));
            // what the module sent in this event BEFORE it panicked still goes out
            send(Message::default().id(msg.header().id + 2000), "to_g");
            panic!("fault injected by panic_driver");
        }
        log("f", format!("msg({})", msg.header().id));
        send(Message::default().id(msg.header().id + 1000), "to_g");
        if n == 1 && sc.f_shuts_down_at_first_msg { current().shutdown(); }
    }
    fn at_sim_end(&mut self) -> Result<(), RuntimeError> {
        let sc = SCN.lock().unwrap().clone().unwrap();
        log("f", "end".into());
        if sc.point == Point::End { panic!("fault injected by panic_driver"); }
        Ok(())
    }
}
struct G;
impl Module for G {
    fn at_sim_start(&mut self, _: usize) {
        let sc = SCN.lock().unwrap().clone().unwrap();
        for (i, t) in sc.to_f_ms.iter().enumerate() { send_in(Message::default().id(100 + i as u16), "to_f", ms(*t)); }
        for (i, t) in sc.to_h_ms.iter().enumerate() { send_in(Message::default().id(300 + i as u16), "to_h", ms(*t)); }
    }
    fn handle_message(&mut self, msg: Message) { log("g", format!("msg({})", msg.header().id)); }
    fn at_sim_end(&mut self) -> Result<(), RuntimeError> {
        log("g", "end".into());
        if SCN.lock().unwrap().as_ref().unwrap().g_panics_at_end { panic!("second fault injected by panic_driver"); }
        Ok(())
    }
}
struct H;
impl Module for H {
    fn at_sim_start(&mut self, _: usize) { tokio::spawn(async move { for k in 0..6u64 { sleep(ms(20)).await; log("h", format!("tick({})", k)); } }); }
    fn handle_message(&mut self, msg: Message) { log("h", format!("msg({})", msg.header().id)); }
    fn at_sim_end(&mut self) -> Result<(), RuntimeError> { log("h", "end".into()); Ok(()) }
}

/// what the property prescribes: (module, what, time_us) for every logged action, and whether an uncaught panic happened
fn expected(sc: &Scn) -> (Vec<(String, String, u64)>, bool) {
    let mut out: Vec<(String, String, u64)> = vec![];
    let mut alive = true;
    let mut panicked = false;
    let mut death_us: Option<u64> = None;
    let mut shut = false;
    for st in 0..sc.stages {
        if alive {
            out.push(("f".into(), format!("start({})", st), 0));
            if sc.point == Point::Stage(st) { alive = false; panicked = true; death_us = Some(0); }
        }
    }
    let mut seen = 0usize;
    for (i, t) in sc.to_f_ms.iter().enumerate() {
        if !alive { continue; }
        seen += 1;
        if sc.point == Point::Msg(seen) { out.push(("f".into(), format!("panics-at-msg({})", 100 + i), t * 1000)); out.push(("g".into(), format!("msg({})", 2100 + i), t * 1000)); alive = false; panicked = true; death_us = Some(t * 1000); }
        else {
            out.push(("f".into(), format!("msg({})", 100 + i), t * 1000)); out.push(("g".into(), format!("msg({})", 1100 + i), t * 1000));
            if seen == 1 && sc.f_shuts_down_at_first_msg { alive = false; shut = true; death_us = Some(t * 1000); }
        }
    }
    // f's own ticks fire only while it is alive (its task exists only if stage 0 ran, which it always does)
    for k in 0..8u64 { let t = (k + 1) * 20_000; if death_us.map(|d| t < d).unwrap_or(true) { out.push(("f".into(), format!("tick({})", k), t)); } }
    for (i, t) in sc.to_h_ms.iter().enumerate() { out.push(("h".into(), format!("msg({})", 300 + i), t * 1000)); }
    for k in 0..6u64 { out.push(("h".into(), format!("tick({})", k), (k + 1) * 20_000)); }
    // the tear-down reaches every module that did not panic, also one that shut itself down: a panic there is reported as well
    if (alive || shut) && sc.point == Point::End { panicked = true; }
    (out, panicked)
}

fn one(sc: &Scn) -> Result<(), (&'static str, String, String)> {
    *SCN.lock().unwrap() = Some(sc.clone());
    LOG.lock().unwrap().clear();
    *SEEN.lock().unwrap() = 0;
    let mut sim = Sim::new(());
    sim.node("f", F); sim.node("g", G); sim.node("h", H);
    sim.gate("g", "to_f").connect(sim.gate("f", "in"), None);
    sim.gate("f", "to_g").connect(sim.gate("g", "in"), None);
    sim.gate("g", "to_h").connect(sim.gate("h", "in"), None);
    let res = std::panic::catch_unwind(std::panic::AssertUnwindSafe(move || Builder::seeded(1).quiet().build(sim.freeze()).run()));
    let all = LOG.lock().unwrap().clone();
    let mut got: Vec<(String, String, u64)> = all.iter().filter(|e| e.1 != "end").cloned().collect();
    let ends: Vec<String> = all.iter().filter(|e| e.1 == "end").map(|e| e.0.clone()).collect();
    let (mut want, panicked) = expected(sc);
    // Tolerated (observation O7 in DESIGN.md, not counted as a violation): the tear-down still calls at_sim_end for the faulty module, and the
    // executor run inside that call polls a task of the faulty module whose timer expired meanwhile; such a tick is logged AT the end
    // instant. Ticks of the faulty module between its panic and the end of the run are not tolerated.
    let end_us = all.iter().map(|e| e.2).max().unwrap_or(0);
    let death: Option<u64> = want.iter().filter(|e| e.0 == "f" && e.1.starts_with("panics-at-msg")).map(|e| e.2).next().or(if matches!(sc.point, Point::Stage(_)) { Some(0) } else { None });
    // a module that shut itself down has no task left: nothing to tolerate for it
    if let Some(d) = death { got.retain(|e| !(e.0 == "f" && e.1.starts_with("tick(") && e.2 == end_us && e.2 > d)); }
    // Tolerated as well (observation O8): the start-up loop still calls the later stages of a module that panicked in an earlier one
    // (start-up stages are neither messages nor wake-ups).
    if let Point::Stage(k) = sc.point { got.retain(|e| !(e.0 == "f" && e.1.starts_with("start(") && e.1 != format!("start({})", k) && e.1[6..e.1.len() - 1].parse::<usize>().map(|s| s > k).unwrap_or(false))); }
    let key = |e: &(String, String, u64)| (e.2, e.0.clone(), e.1.clone());
    got.sort_by_key(key); want.sort_by_key(key);
    let res = match res { Err(_) => return Err(("simulator-aborted", "run() returns".into(), "the panic escaped".into())), Ok(r) => r };
    if got != want {
        let extra: Vec<_> = got.iter().filter(|e| !want.contains(e)).collect();
        let missing: Vec<_> = want.iter().filter(|e| !got.contains(e)).collect();
        return Err(("other-modules-disturbed-or-faulty-module-not-silent", format!("missing (module, what, at_us) {:?}", missing), format!("unexpected {:?}", extra)));
    }
    // the healthy modules are torn down exactly once each
    for m in ["g", "h"] { if ends.iter().filter(|e| e.as_str() == m).count() != 1 { return Err(("tear-down-of-healthy-module", format!("at_sim_end of {} exactly once", m), format!("{:?}", ends))); } }
    let listed: Vec<String> = match &res { Ok(_) => vec![], Err(e) => e.iter().map(|x| x.to_string()).collect() };
    let mut want_err: Vec<String> = if panicked && !sc.catches { vec!["module 'f' panicked".to_string()] } else { vec![] };
    if sc.g_panics_at_end { want_err.push("module 'g' panicked".to_string()); }
    if listed != want_err { return Err(("run-result", format!("errors {:?}", want_err), format!("errors {:?}", listed))); }
    Ok(())
}

fn main() {
    let args: Vec<String> = std::env::args().collect();
    let count: usize = args.get(2).and_then(|s| s.parse().ok()).unwrap_or(2000);
    let seed: u64 = args.get(3).and_then(|s| s.parse().ok()).unwrap_or(1);
    let mut s = seed.wrapping_mul(6364136223846793005).wrapping_add(1442695040888963407) | 1;
    let mut rnd = move || { s ^= s << 13; s ^= s >> 7; s ^= s << 17; s };
    std::panic::set_hook(Box::new(|_| {}));
    let mut last = String::new();
    for _ in 0..count {
        let times = |r: &mut dyn FnMut() -> u64, off: u64| -> Vec<u64> { let mut v: Vec<u64> = (0..r() % 6).map(|_| (r() % 15) * 10 + off).collect(); v.sort(); v.dedup(); v };
        let stages = 1 + (rnd() % 3) as usize;
        let to_f = times(&mut rnd, 3);
        let point = match rnd() % 5 { 0 => Point::Never, 1 => Point::Stage((rnd() % stages as u64) as usize), 2 | 3 => Point::Msg(1 + (rnd() % 4) as usize), _ => Point::End };
        let shuts = rnd() % 5 == 0 && matches!(point, Point::End | Point::Never);
        let sc = Scn { stages, point, catches: rnd() % 3 == 0, to_f_ms: to_f, to_h_ms: times(&mut rnd, 7), f_shuts_down_at_first_msg: shuts, g_panics_at_end: rnd() % 6 == 0 };
        last = format!("{:?}", sc);
        let r = one(&sc);
        // the simulator's global state stays usable for a subsequent simulation in the same process
        let r = r.and_then(|_| one(&Scn { stages: 1, point: Point::Never, catches: false, to_f_ms: vec![13], to_h_ms: vec![7], f_shuts_down_at_first_msg: false, g_panics_at_end: false }).map_err(|e| ("subsequent-simulation-disturbed", e.1, e.2)));
        if let Err((kind, exp, obs)) = r {
            println!("{{\"mismatch\":true,\"kind\":\"{}\",\"props\":\"C13\",\"scenario\":{{\"panic_scenario\":\"{}\"}},\"expected\":\"{}\",\"observed\":\"{}\"}}", kind, last.replace('"', "'"), exp.replace('"', "'"), obs.replace('"', "'"));
            std::process::exit(3);
        }
    }
    println!("{{\"mismatch\":false,\"scenarios\":{},\"other\":\"\",\"sample\":\"{}\"}}", count, last.replace('"', "'"));
}
